"""C01 - chunked streaming equals whole-signal computation (structural clauses)."""

import ast

from .. import astq, spec
from .. import sym as S
from ..cfg import CFG
from ..dataflow import containing_node
from ..report import MISSING
from ..model import AnalysisError
from ..symeval import SymEval
from . import cli_common as cc
from . import stft_common as sc

LEVEL = "other"
TECHNIQUE = ("exact-cover rule on the chunk driver (forward substitution of the slice bounds), sibling agreement of the "
             "streaming and one-shot framing geometry as closed forms, CFG must-write rule on the carried state")
EXPLANATION = (
    "Decides necessary structural conditions only: frame_by_frame_calculation is an exact cover (the slice processed "
    "and the slice kept share one bound on one array, the loop ends only when the signal is exhausted, finalize is "
    "called once after it, results are concatenated in production order, the started guard comes first); "
    "FrameComputer.compute_full delegates to it and the short-integration compute_full is compute_chunk + finalize; "
    "the streaming STFT path (first-frame branch of compute_chunk, finalize) uses the same left padding, frame count "
    "formula, right padding and 'symmetric' mode as the documented one-shot geometry in all three framing "
    "configurations; the short-integration finalize uses the documented frame-count formula on its buffered length; "
    "the carried state (buffer fill count, started flag) is written on every normal exit of compute_chunk. Does NOT "
    "decide equality of values and frame counts over all chunkings and lengths: that depends on arithmetic over the "
    "history of buffer fill counts (symbolic execution, outside this family). The two discrepancies named in the "
    "property's why_tests_cant are therefore neither claimed nor reported.")


def run(ctx):
    ctx.rule(driver)
    ctx.rule(delegation)
    ctx.rule(stft_streaming)
    ctx.rule(si_finalize)
    ctx.rule(carry)
    ctx.rule(shift_register)
    ctx.rule(carry_reset)


def driver(ctx, R="R-C01-driver"):
    prog = ctx.prog
    f = prog.func("compute.frame_by_frame_calculation")
    comp, sig, csz = f.params[:3]
    body = [s for s in f.node.body if not (isinstance(s, ast.Expr) and isinstance(s.value, ast.Constant))]
    first = body[0]
    ok = isinstance(first, ast.If) and astq.text(first.test) == "%s.started" % comp and len(first.body) == 1 and \
        isinstance(first.body[0], ast.Raise) and astq.raise_type(prog, f, first.body[0]) == "ValueError"
    ctx.check(ok, R, f, first, "a computer that is mid-utterance is refused (ValueError) before anything else",
              "frame_by_frame_calculation does not start with `if computer.started: raise ValueError`")
    loops = [n for n in f.node.body if isinstance(n, (ast.While, ast.For))]
    ctx.need(len(loops) == 1, R, "chunk loop not found")
    loop = loops[0]
    if isinstance(loop, ast.While):
        t = astq.text(loop.test).replace(" ", "")
        ctx.check(t in ("len(%s)" % sig, "len(%s)>0" % sig, "%s.size" % sig, "len(%s)!=0" % sig), R, f, loop,
                  "the loop runs until the signal is exhausted", "chunk loop condition is `%s`" % astq.text(loop.test))
        ev = cc.body_eval(prog, f, loop.body)
        chunks = [c for c in astq.calls_in(loop) if astq.attr_call(c, "compute_chunk") and astq.is_name(c.func.value, comp)]
        ctx.need(len(chunks) == 1, R, "computer.compute_chunk call not found in the loop")
        pm = astq.parents(f)
        st = astq.enclosing_stmt(pm, chunks[0])
        arg = ev.eval_at(st, chunks[0].args[0])
        kept = ev.env.get(sig)
        E = None
        ok1 = cc.is_call(arg, "getitem") and arg.args[1] == S.sym(sig) and cc.is_call(arg.args[2], "slice") and \
            arg.args[2].args[1] in (S.NONE, S.ZERO) and arg.args[2].args[3] == S.NONE
        if ok1:
            E = arg.args[2].args[2]
        ctx.check(ok1, R, f, st, "each chunk is the leading slice signal[:E] of what is left", "the chunk processed is %s" % S.show(arg))
        ok2 = kept is not None and cc.is_call(kept, "getitem") and kept.args[1] == S.sym(sig) and cc.is_call(kept.args[2], "slice") and \
            kept.args[2].args[2] == S.NONE and kept.args[2].args[3] == S.NONE
        ctx.check(ok2, R, f, loop, "what is kept for the next iteration is the trailing slice signal[E:]",
                  "the remainder kept is %s" % (S.show(kept) if kept is not None else None))
        if ok1 and ok2:
            r = S.compare(kept.args[2].args[1], E, domain={})
            ctx.check(r["verdict"] == "equal", R, f, loop, "processed and kept slices share the same bound (exact cover, no sample lost or repeated)",
                      "the chunk is signal[:%s] but the remainder starts at %s: samples are %s" % (
                          S.show(E), S.show(kept.args[2].args[1]), "dropped or duplicated between chunks"))
            ctx.check(E == S.sym(csz), R, f, loop, "the bound is chunk_size", "the chunk bound is %s" % S.show(E))
        # order of statements: process, then drop
        idx_c = [i for i, s in enumerate(loop.body) if s is st or any(x is chunks[0] for x in ast.walk(s))]
        idx_k = [i for i, s in enumerate(loop.body) if isinstance(s, ast.Assign) and astq.is_name(s.targets[0], sig)]
        ctx.check(bool(idx_c) and bool(idx_k) and idx_c[0] < idx_k[0], R, f, loop, "a chunk is processed before it is dropped from the signal")
    else:
        raise AnalysisError("%s: chunk loop is a for-loop; idiom not modelled (re-confirm the rule)" % R)
    # no early exit from the loop
    for n in ast.walk(loop):
        if isinstance(n, (ast.Break, ast.Return, ast.Continue)):
            ctx.bad(R, f, n, "the chunk loop can leave or skip before the signal is exhausted", "loop ends only when the signal is exhausted")
    # finalize exactly once, after the loop; production order
    cfg = CFG(f.node)
    fin = [c for c in astq.func_calls(f) if astq.attr_call(c, "finalize") and astq.is_name(c.func.value, comp)]
    ctx.check(len(fin) == 1, R, f, f.node, "finalize() is called exactly once", "finalize() is called %d times" % len(fin))
    if len(fin) == 1:
        nf = containing_node(cfg, f, fin[0])
        nl = cfg.node(loop)
        ctx.check(nl in cfg.dominators().get(nf, ()) and nf not in cfg.loops.get(nl, set()), R, f, fin[0], "finalize() follows the chunk loop",
                  "finalize() is not placed after the chunk loop")
        rets = astq.returns_of(f)
        ctx.need(len(rets) == 1, R, "frame_by_frame_calculation has several returns")
        nr = cfg.node(rets[0])
        ctx.check(nf in cfg.dominators().get(nr, ()), R, f, rets[0], "every normal return passes through finalize()")
        v = rets[0].value
        ok = isinstance(v, ast.Call) and prog.qualify(f.module, v.func, f) == "numpy.concatenate" and len(v.args) == 1 and isinstance(v.args[0], ast.Name)
        ctx.check(ok, R, f, rets[0], "the pieces are concatenated", "return value is %s" % astq.text(v))
        if ok:
            lst = v.args[0].id
            for c in astq.func_calls(f):
                if isinstance(c.func, ast.Attribute) and astq.is_name(c.func.value, lst):
                    ctx.check(c.func.attr == "append", R, f, c, "pieces are only ever appended (production order)",
                              "the list of pieces is modified by .%s(...)" % c.func.attr)
            apps = [c for c in astq.func_calls(f) if astq.attr_call(c, "append") and astq.is_name(c.func.value, lst)]
            ok = len(apps) == 2 and any(a.args[0] is chunks[0] for a in apps) and any(a.args[0] is fin[0] for a in apps)
            ctx.check(ok, R, f, f.node, "exactly the chunk results and the finalize result are collected",
                      "collected pieces are %s" % [astq.text(a.args[0]) for a in apps])


def delegation(ctx, R="R-C01-si-full"):
    prog = ctx.prog
    base = prog.cls("compute.FrameComputer")
    f = prog.own_method(base, "compute_full")
    rets = astq.returns_of(f)
    ok = len(rets) == 1 and isinstance(rets[0].value, ast.Call) and prog.resolve(f.module, rets[0].value.func, f) is prog.func("compute.frame_by_frame_calculation") \
        and [astq.text(a) for a in rets[0].value.args] == [f.params[0], f.params[1]] and not rets[0].value.keywords
    ctx.check(ok, R, f, rets[0] if rets else MISSING(f.node), "the default compute_full is frame_by_frame_calculation(self, signal)",
              "FrameComputer.compute_full is %s" % (astq.text(rets[0].value) if rets else None))
    si = prog.cls("compute.ShortIntegrationFrameComputer")
    g = prog.own_method(si, "compute_full")
    ev = SymEval(prog, g, seed={"self._started": False}).run()
    ctx.need(len(ev.returns) == 1, R, "SI compute_full has several returns")
    v = ev.returns[0][1]
    slf, sig = S.sym(g.params[0]), S.sym(g.params[1])
    want = S.call("np.concatenate", S.call("list", S.call(".compute_chunk", slf, sig), S.call(".finalize", slf)))
    ctx.check(v == want, R, g, ev.returns[0][2], "SI compute_full is compute_chunk(signal) followed by finalize(), concatenated in that order",
              "SI compute_full returns %s" % S.show(v)[:160])


def stft_streaming(ctx, R="R-C01-geom-siblings"):
    prog = ctx.prog
    n = 0
    buf_len = S.sym("buf_len")
    for style, kaldi in sc.CONFIGS:
        name = sc.cfg_name(style, kaldi)
        pl_spec = spec.geom_pad_left(style, kaldi)
        for first in (True, False):
            f, ev = sc.np_eval(prog, "compute.ShortTimeFourierTransformFrameComputer.finalize", style, kaldi,
                               extra_seed={"self._first_frame": first})
            # buf_len is read from self._buf_len
            m = {S.sym("self._buf_len"): buf_len}
            calls = sc._compute_frame_call(f, ev)
            ctx.need(len(calls) == 1, R, "finalize does not call _compute_frame exactly once (in a loop)")
            pm = astq.parents(f)
            st = astq.enclosing_stmt(pm, calls[0])
            frame = S.subst(ev.eval_at(st, calls[0].args[0]), m)
            g = sc._parse_np_frame(R, frame, "self._buf", "finalize")
            loop = [a for a in astq.ancestors(pm, calls[0]) if isinstance(a, ast.For)][0]
            it = S.subst(ev.eval_at(loop, loop.iter), m)
            ctx.need(cc.is_call(it, "range") and len(it.args) == 2, R, "finalize frame loop is not range(num_frames)")
            nf = it.args[1]
            pl_eff = pl_spec if first else S.ZERO
            nf_want = S.floordiv(S.sub(S.add(buf_len, S.floordiv(sc.Sh, S.lift(2))), S.ZERO if first else pl_spec), sc.Sh)
            tag = "[%s, %s]" % (name, "nothing emitted yet" if first else "after the first frame")
            n += 1
            sc.same(ctx, R, f, loop, "%s finalize frame count" % tag, nf, nf_want)
            ctx.need(g["pad"] is not None, R, "np.pad not found in finalize")
            ctx.check(g["pad"]["mode"] == S.lift("symmetric"), R, f, st, "%s finalize pads symmetrically, like compute_full" % tag,
                      "finalize pads with mode %s but compute_full with 'symmetric'" % S.show(g["pad"]["mode"]))
            sc.same(ctx, R, f, st, "%s finalize left padding" % tag, g["pad"]["left"], pl_eff)
            pr_want = S.sub(S.sub(S.add(S.mul(S.sub(nf_want, S.ONE), sc.Sh), sc.L), buf_len), pl_eff)
            sc.same(ctx, R, f, st, "%s finalize right padding" % tag, g["pad"]["right"], pr_want)
            k = S.sym(loop.target.id)
            dom = dict(sc.DOM, **{k.args[0]: sc.DOM["N"]})
            sc.same(ctx, R, f, st, "%s finalize frame k starts at k*S" % tag, g["frame_lo"], S.mul(k, sc.Sh), dom)
            sc.same(ctx, R, f, st, "%s finalize frame length" % tag, S.sub(g["frame_hi"], g["frame_lo"]), sc.L, dom)
            # the padded source is the retained remainder self._buf[-buf_len:]
            src = g["pad"]["src"]
            ok = cc.is_call(src, "getitem") and cc.is_call(src.args[2], "slice") and S.compare(src.args[2].args[1], S.neg(buf_len), domain={})["verdict"] == "equal" \
                and src.args[2].args[2] == S.NONE
            ctx.check(ok, R, f, st, "%s the retained remainder self._buf[-buf_len:] is what gets padded" % tag, "finalize pads %s" % S.show(src)[:100])
    # compute_chunk: first (centered) frame length and its reflected left context
    for style, kaldi in sc.CONFIGS:
        if style != "centered":
            continue
        name = sc.cfg_name(style, kaldi)
        pl_spec = spec.geom_pad_left(style, kaldi)
        f, ev = sc.np_eval(prog, "compute.ShortTimeFourierTransformFrameComputer.compute_chunk", style, kaldi,
                           extra_seed={"self._first_frame": True}, no_inline=("_compute_frame",))
        fl = [n_ for n_ in f.body_nodes() if isinstance(n_, ast.Assign) and astq.is_name(n_.targets[0], "num_frames")]
        ctx.need(len(fl) == 1, R, "num_frames assignment not found in compute_chunk")
        first_len = ev.eval_at(fl[0], ast.parse("frame_length", mode="eval").body)
        n += 1
        sc.same(ctx, R, f, fl[0], "[%s] first frame needs L - pad_left real samples" % name, first_len, S.sub(sc.L, pl_spec))
        pads = [c for c in astq.func_calls(f) if prog.qualify(f.module, c.func, f) == "numpy.pad" and ev.reached(astq.enclosing_stmt(astq.parents(f), c))]
        ctx.need(len(pads) == 1, R, "expected exactly one reachable np.pad in compute_chunk for %s, found %d" % (name, len(pads)))
        pst = astq.enclosing_stmt(astq.parents(f), pads[0])
        tup = ev.eval_at(pst, pads[0].args[1])
        mode = ev.eval_at(pst, pads[0].args[2])
        ctx.check(mode == S.lift("symmetric"), R, f, pst, "[%s] the first frame's left context is a symmetric reflection" % name,
                  "compute_chunk reflects with mode %s" % S.show(mode))
        ctx.need(cc.is_call(tup, "tuple") and len(tup.args) == 3, R, "np.pad widths not a pair")
        # inside the branch frame_length has been reset to L
        sc.same(ctx, R, f, pst, "[%s] reflected left context of the first frame" % name, tup.args[1], pl_spec)
        sc.same(ctx, R, f, pst, "[%s] no right padding while streaming" % name, tup.args[2], S.ZERO)
    ctx.floor(R, n, 8)


def si_finalize(ctx, R="R-C01-si-finalize"):
    prog = ctx.prog
    for style in ("centered", "causal"):
        f, ev = sc.np_eval(prog, "compute.ShortIntegrationFrameComputer.finalize", style, False,
                           extra_seed={"self._started": True}, no_inline=("compute_chunk",))
        nf = ev.env.get("num_frames")
        bl = ev.env.get("buf_len")
        ctx.need(nf is not None and bl is not None, R, "num_frames / buf_len not found in SI finalize")
        borrowed = sc.Sh if style == "centered" else S.ZERO
        bl_want = S.sub(S.add(S.add(S.sub(S.sym("self._translation"), S.sym("self._skip")), S.sym("self._x_rem")), S.sym("self._y_rem")), borrowed)
        dom = {k: sc.DOM["N"] for k in ("self._translation", "self._skip", "self._x_rem", "self._y_rem")}
        dom.update(sc.DOM)
        if S.has_unknown(nf) or S.has_unknown(bl):
            # the flush is taken only on some paths: frames owed, as a total function of the carried state
            unb = {x: S.ZERO for x in S.walk(nf) if x.op == "unknown"}
            nf_total = S.subst(nf, unb)
            ctx.need(not S.has_unknown(nf_total), R, "frame count of SI finalize depends on an untracked value")
            sc.same(ctx, R, f, f.node, "[%s] frames owed by finalize as a function of the carried state (0 where it skips the flush)" % style,
                    nf_total, S.emax(S.ZERO, S.floordiv(S.add(bl_want, S.floordiv(sc.Sh, S.lift(2))), sc.Sh)), dom)
            leaves = [leaf for tests, leaf in cc.strip_cond(bl) if not S.has_unknown(leaf)]
            ctx.need(len(leaves) == 1, R, "buf_len of SI finalize has no single closed form")
            nf_leaves = [leaf for tests, leaf in cc.strip_cond(nf) if not S.has_unknown(leaf)]
            ctx.need(len(nf_leaves) == 1, R, "num_frames of SI finalize has no single closed form")
            bl, nf = leaves[0], nf_leaves[0]
        borrowed = sc.Sh if style == "centered" else S.ZERO
        bl_want = S.sub(S.add(S.add(S.sub(S.sym("self._translation"), S.sym("self._skip")), S.sym("self._x_rem")), S.sym("self._y_rem")), borrowed)
        dom = {k: sc.DOM["N"] for k in ("self._translation", "self._skip", "self._x_rem", "self._y_rem")}
        dom.update(sc.DOM)
        sc.same(ctx, R, f, f.node, "[%s] samples still owed a frame = translation - skip + x_rem + y_rem - borrowed" % style, bl, bl_want, dom)
        blv = S.sym("buf_len")
        nf_sub = S.subst(nf, {bl: blv}) if bl != blv else nf
        sc.same(ctx, R, f, f.node, "[%s] SI finalize frame count is (buf_len + S//2)//S" % style,
                nf_sub, S.emax(S.ZERO, S.floordiv(S.add(blv, S.floordiv(sc.Sh, S.lift(2))), sc.Sh)), dict(sc.DOM, buf_len=[S.Fraction(v) for v in (-3, -1, 0, 1, 2, 5, 8)]))
        # the flush: compute_chunk(zeros(pad_right))[:num_frames] with pad_right = (nf-1)*S + frame_length - buf_len
        calls = [c for c in astq.func_calls(f) if astq.attr_call(c, "compute_chunk")]
        ctx.need(len(calls) == 1, R, "SI finalize does not flush through compute_chunk")
        pm = astq.parents(f)
        st = astq.enclosing_stmt(pm, calls[0])
        pr = ev.eval_at(st, ast.parse("pad_right", mode="eval").body)
        pr = S.subst(pr, {bl: blv, nf: S.sym("num_frames")})
        want = S.sub(S.add(S.mul(S.sub(S.sym("num_frames"), S.ONE), sc.Sh), sc.L), blv)
        sc.same(ctx, R, f, st, "[%s] zero padding flushed through compute_chunk" % style, pr, want,
                dict(sc.DOM, buf_len=sc.DOM["N"], num_frames=sc.DOM["S"]))
        z = calls[0].args[0]
        ok = isinstance(z, ast.Call) and prog.qualify(f.module, z.func, f) == "numpy.zeros"
        ctx.check(ok, R, f, st, "[%s] the flush feeds zeros (signal taken as zero beyond its end)" % style, "flush feeds %s" % astq.text(z))
        par = pm.get(id(calls[0]))
        ok = isinstance(par, ast.Subscript) and isinstance(par.slice, ast.Slice) and par.slice.lower is None and astq.text(par.slice.upper) == "num_frames"
        ctx.check(ok, R, f, st, "[%s] only the owed frames of the flush are kept ([:num_frames])" % style, "flush result is not sliced [:num_frames]")


def carry(ctx, R="R-C01-carry"):
    prog = ctx.prog
    stft = prog.cls("compute.ShortTimeFourierTransformFrameComputer")
    f = prog.own_method(stft, "compute_chunk")
    cfg = CFG(f.node)
    dom = cfg.dominators()
    rets = astq.returns_of(f)
    ctx.need(rets, R, "compute_chunk has no return")
    for attr in ("_buf_len", "_started"):
        stores = [n for n in f.body_nodes() if isinstance(n, ast.Assign) and any(astq.is_self_attr(t, f.params[0], attr) for t in n.targets)]
        for r in rets:
            nr = cfg.node(r)
            ok = any(cfg.node(s) in dom.get(nr, ()) for s in stores)
            ctx.check(ok, R, f, r, "self.%s is written on every path to this return" % attr,
                      "compute_chunk can return without updating self.%s; the next chunk would start from stale state" % attr)
    bl = [n for n in f.body_nodes() if isinstance(n, ast.Assign) and any(astq.is_self_attr(t, f.params[0], "_buf_len") for t in n.targets)]
    ctx.check(len(bl) == 1 and astq.text(bl[0].value) == "rem_len", R, f, bl[0] if bl else MISSING(f.node),
              "the fill count carried to the next chunk is the number of samples not yet covered by an emitted frame")
    ev = SymEval(prog, f, rename=sc.NP_RENAME, seed={"self._frame_style": "causal"}, inline_props=False).run()
    rem = [n for n in f.body_nodes() if isinstance(n, ast.Assign) and astq.is_name(n.targets[0], "rem_len")]
    ctx.need(len(rem) == 1, R, "rem_len assignment not found")
    v = ev.eval_at(rem[0], rem[0].value)
    ctx.check(astq.eq_text(rem[0].value, "total_len-num_frames*frame_shift"), R, f, rem[0],
              "remainder = samples available - frames emitted x shift", "remainder is %s" % astq.text(rem[0].value))
    nfr = [n for n in f.body_nodes() if isinstance(n, ast.Assign) and astq.is_name(n.targets[0], "num_frames")]
    v = ev.eval_at(nfr[0], nfr[0].value)
    v = S.subst(v, {S.call("len", S.sym("chunk")): S.sym("chunk_len"), S.sym("self._buf_len"): S.sym("buf_len")})
    want = S.emax(S.ZERO, S.add(S.floordiv(S.sub(S.add(S.sym("chunk_len"), S.sym("buf_len")), sc.L), sc.Sh), S.ONE))
    sc.same(ctx, R, f, nfr[0], "[causal] frames emitted by a chunk = max(0, (available - L)//S + 1)", v, want,
            dict(sc.DOM, chunk_len=sc.DOM["N"], buf_len=sc.DOM["buf_len"]))


def shift_register(ctx, R="R-C01-shift-register"):
    """The short-integration raw-sample buffer is a shift register: every update either
    shifts it left by n and writes n new samples at its right end, or overwrites it
    with the *most recent* len(buffer) samples of the block being pushed."""
    prog = ctx.prog
    c = prog.cls("compute.ShortIntegrationFrameComputer")
    n_w = 0
    Lsym = S.sym("LEN")
    for f in c.methods.values():
        if f.name == "__init__" or not f.params:
            continue
        s_ = f.params[0]
        stores = [n for n in f.body_nodes() if isinstance(n, ast.Assign) and isinstance(n.targets[0], ast.Subscript)
                  and astq.is_self_attr(n.targets[0].value, s_, "_x_buf") and isinstance(n.targets[0].slice, ast.Slice)]
        if not stores:
            continue
        ev = SymEval(prog, f, inline_props=False)
        ev.env = {}
        lenmap = {S.sym("self._dft_size"): Lsym, S.call("len", S.sym("self._x_buf")): Lsym}

        def E(node):
            if node is None:
                return S.NONE
            e = ev.expr(node)
            # local aliases of the buffer length
            for nm in ("x_len",):
                e = S.subst(e, {S.sym(nm): Lsym})
            return S.subst(e, lenmap)

        def norm_lo(e):  # slice lower bound: None -> 0, negative k -> LEN + k
            if e == S.NONE:
                return S.ZERO
            if e.op == "neg":
                return S.sub(Lsym, e.args[0])
            return e

        def norm_hi(e):
            if e == S.NONE:
                return Lsym
            if e.op == "neg":
                return S.sub(Lsym, e.args[0])
            return e

        for st in stores:
            n_w += 1
            t, v = st.targets[0].slice, st.value
            tlo, thi = norm_lo(E(t.lower)), norm_hi(E(t.upper))
            if isinstance(v, ast.Subscript) and astq.is_self_attr(v.value, s_, "_x_buf") and isinstance(v.slice, ast.Slice):
                # shift: buf[:A] = buf[B:]  with A + B == LEN
                vlo = norm_lo(E(v.slice.lower))
                ok = tlo == S.ZERO and v.slice.upper is None and S.compare(S.add(thi, vlo), Lsym, domain={})["verdict"] == "equal"
                ctx.check(ok, R, f, st, "shifting keeps the newest samples: buf[:L-n] = buf[n:]",
                          "the raw-sample buffer is shifted inconsistently (%s): samples are lost or duplicated between chunks" % astq.text(st)[:100])
                continue
            # data written into the buffer
            if not (isinstance(v, (ast.Subscript, ast.Name))):
                continue
            if isinstance(v, ast.Name):
                continue  # whole block written into a slice of matching length (checked by NumPy at run time)
            if not isinstance(v.slice, ast.Slice):
                continue
            full = tlo == S.ZERO and thi == Lsym
            vlo_raw, vhi_raw = v.slice.lower, v.slice.upper
            if full:
                prefix = (vlo_raw is None or astq.text(vlo_raw) == "0") and vhi_raw is not None and not (isinstance(vhi_raw, ast.UnaryOp))
                ctx.check(not prefix, R, f, st, "a block longer than the buffer leaves its most recent samples in the buffer",
                          "when the pushed block is at least as long as the buffer, its *first* samples are kept (%s); the overlap-save "
                          "convolution of the following samples needs the most recent ones, so the next frames are wrong"
                          % astq.text(st)[:100])
                if not prefix:
                    # suffix form: [a - LEN : a] or [-LEN:]
                    lo, hi = E(vlo_raw), E(vhi_raw)
                    if hi == S.NONE:
                        ok = lo.op == "neg" and lo.args[0] == Lsym
                    else:
                        ok = S.compare(S.sub(hi, lo), Lsym, domain={})["verdict"] == "equal"
                    ctx.check(ok, R, f, st, "the overwrite takes exactly len(buffer) samples ending where the pushed block ends",
                              "full overwrite takes %s" % astq.text(v)[:80])
            else:
                # tail write: buf[L-n:] = data[...] ; n samples
                ok_t = thi == Lsym
                ctx.check(ok_t, R, f, st, "new samples are written at the right end of the buffer", "new samples are written at %s" % astq.text(st.targets[0])[:80])
    ctx.floor(R, n_w, 2)


def carry_reset(ctx):
    """finalize leaves no carried state behind on any of its exits (shared with C04's
    reset-completeness rule: a fill count or first-frame flag surviving an early return of
    finalize makes the next chunked computation differ from compute_full)."""
    from . import c04

    prog = ctx.prog
    for cname in ("compute.ShortTimeFourierTransformFrameComputer", "compute.ShortIntegrationFrameComputer"):
        c04.reset(ctx, prog.cls(cname), R="R-C01-carry-reset")
