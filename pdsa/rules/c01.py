"""C01 - chunked streaming equals whole-signal computation (structural clauses)."""

import ast
from fractions import Fraction

from .. import astq, spec
from .. import sym as S
from ..cfg import CFG
from ..dataflow import containing_node
from ..report import MISSING
from ..model import AnalysisError
from ..symeval import SymEval
from . import cli_common as cc
from . import stft_common as sc

LEVEL = "other"
TECHNIQUE = ("exact-cover rule on the chunk driver (forward substitution of the slice bounds); closed-form summary of the "
             "one-chunk history (compute_chunk with an idempotent-loop summary, then finalize) compared with compute_full's "
             "closed forms - identical normal forms where possible, otherwise exact evaluation of the extracted integer "
             "formulas on a declared finite grid (bounded); sibling agreement of the streaming and one-shot framing "
             "geometry; CFG must-write rule on the carried state")
EXPLANATION = (
    "Decides necessary conditions: frame_by_frame_calculation is an exact cover (the slice processed and the slice "
    "kept share one bound on one array, the loop ends only when the signal is exhausted, finalize is called once after "
    "it, results are concatenated in production order, the started guard comes first); FrameComputer.compute_full "
    "delegates to it and the short-integration compute_full is compute_chunk + finalize; for the history 'whole signal "
    "in one compute_chunk call, then finalize' the number of frames emitted by the two calls, as closed forms in "
    "(N, L, S) extracted by forward substitution, adds up to compute_full's count (none below L//2+1) for all four "
    "frame_style / kaldi_shift configurations, and finalize never reflects further back than the samples it pads "
    "unless that array is the whole signal - both on the grid L in 1..12,16,25, S <= L, N <= 3L+2 (bounded, stated per "
    "obligation); finalize and the first-frame branch of compute_chunk use the same left padding, frame count, right "
    "padding, frame bounds and 'symmetric' mode as compute_full's documented geometry; the short-integration finalize "
    "owes (buffered + S//2)//S frames as a total function of its carried state; the carried state is written on every "
    "normal exit of compute_chunk and reset by finalize. Does NOT decide equality of the *values* of the frames, nor "
    "histories of more than one chunk (chunk-invariance of the ring buffer): those quantify over run-time histories.")


def run(ctx):
    ctx.rule(driver)
    ctx.rule(delegation)
    ctx.rule(stft_streaming)
    ctx.rule(_full_sibling)
    ctx.rule(single_chunk_history)
    ctx.rule(split_invariance)
    ctx.rule(frame_style_domain)
    ctx.rule(instance_state_only)
    ctx.rule(any_layout)
    ctx.rule(si_finalize)
    ctx.rule(carry)
    ctx.rule(shift_register)
    ctx.rule(carry_reset)
    ctx.rule(_frames_not_written)
    ctx.rule(_second_chunk_accepted)


def driver(ctx, R="R-C01-driver"):
    prog = ctx.prog
    f = prog.func("compute.frame_by_frame_calculation")
    comp, sig, csz = f.params[:3]
    body = [s for s in f.node.body if not (isinstance(s, ast.Expr) and isinstance(s.value, ast.Constant))]
    first = body[0]
    ok = isinstance(first, ast.If) and astq.text(first.test) == "%s.started" % comp and len(first.body) == 1 and \
        isinstance(first.body[0], ast.Raise) and astq.raise_type(prog, f, first.body[0]) == "ValueError"
    ctx.check(ok, R, f, first, "a computer that is mid-utterance is refused (ValueError) before anything else",
              "frame_by_frame_calculation does not start with `if computer.started: raise ValueError`")
    loops = [n for n in f.node.body if isinstance(n, (ast.While, ast.For))]
    ctx.need(len(loops) == 1, R, "chunk loop not found")
    loop = loops[0]
    if isinstance(loop, ast.While):
        t = astq.text(loop.test).replace(" ", "")
        ctx.check(t in ("len(%s)" % sig, "len(%s)>0" % sig, "%s.size" % sig, "len(%s)!=0" % sig), R, f, loop,
                  "the loop runs until the signal is exhausted", "chunk loop condition is `%s`" % astq.text(loop.test))
        ev = cc.body_eval(prog, f, loop.body)
        chunks = [c for c in astq.calls_in(loop) if astq.attr_call(c, "compute_chunk") and astq.is_name(c.func.value, comp)]
        ctx.need(len(chunks) == 1, R, "computer.compute_chunk call not found in the loop")
        pm = astq.parents(f)
        st = astq.enclosing_stmt(pm, chunks[0])
        arg = ev.eval_at(st, chunks[0].args[0])
        kept = ev.env.get(sig)
        E = None
        ok1 = cc.is_call(arg, "getitem") and arg.args[1] == S.sym(sig) and cc.is_call(arg.args[2], "slice") and \
            arg.args[2].args[1] in (S.NONE, S.ZERO) and arg.args[2].args[3] == S.NONE
        if ok1:
            E = arg.args[2].args[2]
        ctx.check(ok1, R, f, st, "each chunk is the leading slice signal[:E] of what is left", "the chunk processed is %s" % S.show(arg))
        ok2 = kept is not None and cc.is_call(kept, "getitem") and kept.args[1] == S.sym(sig) and cc.is_call(kept.args[2], "slice") and \
            kept.args[2].args[2] == S.NONE and kept.args[2].args[3] == S.NONE
        ctx.check(ok2, R, f, loop, "what is kept for the next iteration is the trailing slice signal[E:]",
                  "the remainder kept is %s" % (S.show(kept) if kept is not None else None))
        if ok1 and ok2:
            r = S.compare(kept.args[2].args[1], E, domain={})
            ctx.check(r["verdict"] == "equal", R, f, loop, "processed and kept slices share the same bound (exact cover, no sample lost or repeated)",
                      "the chunk is signal[:%s] but the remainder starts at %s: samples are %s" % (
                          S.show(E), S.show(kept.args[2].args[1]), "dropped or duplicated between chunks"))
            ctx.check(E == S.sym(csz), R, f, loop, "the bound is chunk_size", "the chunk bound is %s" % S.show(E))
        # order of statements: process, then drop
        idx_c = [i for i, s in enumerate(loop.body) if s is st or any(x is chunks[0] for x in ast.walk(s))]
        idx_k = [i for i, s in enumerate(loop.body) if isinstance(s, ast.Assign) and astq.is_name(s.targets[0], sig)]
        ctx.check(bool(idx_c) and bool(idx_k) and idx_c[0] < idx_k[0], R, f, loop, "a chunk is processed before it is dropped from the signal")
    else:
        raise AnalysisError("%s: chunk loop is a for-loop; idiom not modelled (re-confirm the rule)" % R)
    # no early exit from the loop
    for n in ast.walk(loop):
        if isinstance(n, (ast.Break, ast.Return, ast.Continue)):
            ctx.bad(R, f, n, "the chunk loop can leave or skip before the signal is exhausted", "loop ends only when the signal is exhausted")
    # finalize exactly once, after the loop; production order
    cfg = CFG(f.node)
    fin = [c for c in astq.func_calls(f) if astq.attr_call(c, "finalize") and astq.is_name(c.func.value, comp)]
    ctx.check(len(fin) == 1, R, f, f.node, "finalize() is called exactly once", "finalize() is called %d times" % len(fin))
    if len(fin) == 1:
        nf = containing_node(cfg, f, fin[0])
        nl = cfg.node(loop)
        ctx.check(nl in cfg.dominators().get(nf, ()) and nf not in cfg.loops.get(nl, set()), R, f, fin[0], "finalize() follows the chunk loop",
                  "finalize() is not placed after the chunk loop")
        rets = astq.returns_of(f)
        ctx.need(len(rets) == 1, R, "frame_by_frame_calculation has several returns")
        nr = cfg.node(rets[0])
        ctx.check(nf in cfg.dominators().get(nr, ()), R, f, rets[0], "every normal return passes through finalize()")
        v = rets[0].value
        if isinstance(v, ast.Name):
            # `out = np.concatenate(pieces); ...; return out`: the returned name's last binding in the function body
            binds = [st for st in f.node.body if isinstance(st, ast.Assign) and len(st.targets) == 1 and astq.is_name(st.targets[0], v.id) and st.lineno < rets[0].lineno]
            later = [x for st in f.node.body if binds and st.lineno > binds[-1].lineno and st is not rets[0] for x in ast.walk(st)
                     if isinstance(x, ast.Name) and x.id == v.id and isinstance(x.ctx, ast.Store)]
            if binds and not later:
                v = binds[-1].value
        ok = isinstance(v, ast.Call) and prog.qualify(f.module, v.func, f) == "numpy.concatenate" and len(v.args) == 1 and isinstance(v.args[0], ast.Name)
        ctx.check(ok, R, f, rets[0], "the pieces are concatenated", "return value is %s" % astq.text(v))
        if ok:
            lst = v.args[0].id
            for c in astq.func_calls(f):
                if isinstance(c.func, ast.Attribute) and astq.is_name(c.func.value, lst):
                    ctx.check(c.func.attr == "append", R, f, c, "pieces are only ever appended (production order)",
                              "the list of pieces is modified by .%s(...)" % c.func.attr)
            apps = [c for c in astq.func_calls(f) if astq.attr_call(c, "append") and astq.is_name(c.func.value, lst)]
            ok = len(apps) == 2 and any(a.args[0] is chunks[0] for a in apps) and any(a.args[0] is fin[0] for a in apps)
            ctx.check(ok, R, f, f.node, "exactly the chunk results and the finalize result are collected",
                      "collected pieces are %s" % [astq.text(a.args[0]) for a in apps])


def delegation(ctx, R="R-C01-si-full"):
    prog = ctx.prog
    base = prog.cls("compute.FrameComputer")
    f = prog.own_method(base, "compute_full")
    rets = astq.returns_of(f)
    ok = len(rets) == 1 and isinstance(rets[0].value, ast.Call) and prog.resolve(f.module, rets[0].value.func, f) is prog.func("compute.frame_by_frame_calculation") \
        and [astq.text(a) for a in rets[0].value.args] == [f.params[0], f.params[1]] and not rets[0].value.keywords
    ctx.check(ok, R, f, rets[0] if rets else MISSING(f.node), "the default compute_full is frame_by_frame_calculation(self, signal)",
              "FrameComputer.compute_full is %s" % (astq.text(rets[0].value) if rets else None))
    si = prog.cls("compute.ShortIntegrationFrameComputer")
    g = prog.own_method(si, "compute_full")
    ev = SymEval(prog, g, seed={"self._started": False}).run()
    ctx.need(len(ev.returns) == 1, R, "SI compute_full has several returns")
    v = ev.returns[0][1]
    slf, sig = S.sym(g.params[0]), S.sym(g.params[1])
    want = S.call("np.concatenate", S.call("list", S.call(".compute_chunk", slf, sig), S.call(".finalize", slf)))
    ctx.check(v == want, R, g, ev.returns[0][2], "SI compute_full is compute_chunk(signal) followed by finalize(), concatenated in that order",
              "SI compute_full returns %s" % S.show(v)[:160])


GRID_L = list(range(1, 13)) + [16, 25]
GRID_NOTE = "bounded: every frame length L in 1..12, 16, 25, every shift S <= L, every signal length N in 0..3L+2"


def _grid(extra=None):
    dom = {"L": [Fraction(v) for v in GRID_L], "S": [Fraction(v) for v in range(1, 26)], "N": [Fraction(v) for v in range(0, 78)]}
    dom.update(extra or {})
    return dom


def _grid_ok(env):
    return env["S"] <= env["L"] and env["N"] <= 3 * env["L"] + 2


def _same_grid(ctx, R, f, node, what, got, want, use_grid):
    """closed-form equality; piecewise forms (the short-signal case split) are compared on the bounded grid"""
    r = S.compare(sc.simp(sc._len_syms(got)), sc.simp(sc._len_syms(want)), domain={})
    if r["verdict"] == "equal":
        ctx.ok(R, f.loc(node), "%s == %s" % (what, S.show(want)[:100]))
        return
    dom = {"L": [Fraction(v) for v in GRID_L], "S": [Fraction(v) for v in range(1, 26)], "buf_len": [Fraction(v) for v in range(0, 78)]}
    for nme in sorted((set(S.symbols(got)) | set(S.symbols(want))) - set(dom)):
        dom[nme] = [Fraction(v) for v in (0, 1, 2, 5, 11)]
    r = S.compare_on_grid(got, want, dom, lambda e: e["S"] <= e["L"] and e["buf_len"] <= 3 * e["L"] + 2, limit=4000000)
    if r["verdict"] == "equal-on-grid":
        ctx.ok(R, f.loc(node), "%s == %s (%s; %d points)" % (what, S.show(want)[:100], GRID_NOTE.replace("signal length N", "buf_len"), r["points"]))
    elif r["verdict"] == "differ":
        ctx.bad(R, f, node, "%s is %s, expected %s; they differ e.g. at %s (%s vs %s)" % (what, S.show(got)[:140], S.show(want)[:140], r["witness"], r["values"][0], r["values"][1]),
                what, extra={"witness": r["witness"]})
    else:
        raise AnalysisError("%s: cannot decide %s: %s" % (R, what, r.get("reason")))


def stft_streaming(ctx, R="R-C01-geom-siblings"):
    prog = ctx.prog
    n = 0
    buf_len = S.sym("buf_len")
    for style, kaldi in sc.CONFIGS:
        name = sc.cfg_name(style, kaldi)
        pl_spec = spec.geom_pad_left(style, kaldi)
        for first in (True, False):
            f, ev = sc.np_eval(prog, "compute.ShortTimeFourierTransformFrameComputer.finalize", style, kaldi,
                               extra_seed={"self._first_frame": first})
            # buf_len is read from self._buf_len
            m = {S.sym("self._buf_len"): buf_len}
            calls = sc._compute_frame_call(f, ev)
            ctx.need(len(calls) == 1, R, "finalize does not call _compute_frame exactly once (in a loop)")
            pm = astq.parents(f)
            st = astq.enclosing_stmt(pm, calls[0])
            frame = S.subst(ev.eval_at(st, calls[0].args[0]), m)
            g = sc._parse_np_frame(R, frame, "self._buf", "finalize")
            loop = [a for a in astq.ancestors(pm, calls[0]) if isinstance(a, ast.For)][0]
            it = S.subst(ev.eval_at(loop, loop.iter), m)
            ctx.need(cc.is_call(it, "range") and len(it.args) == 2, R, "finalize frame loop is not range(num_frames)")
            nf = it.args[1]
            pl_eff = pl_spec if first else S.ZERO
            nf_want = S.floordiv(S.sub(S.add(buf_len, S.floordiv(sc.Sh, S.lift(2))), S.ZERO if first else pl_spec), sc.Sh)
            tag = "[%s, %s]" % (name, "nothing emitted yet" if first else "after the first frame")
            n += 1
            if first:
                # nothing emitted yet: the buffer holds the whole signal so far (see the clause on compute_chunk below), and
                # what finalize owes is what compute_full returns for a signal of buf_len samples - none below L//2 + 1
                loop_guard = S.subst(ev.guard_of(loop), m) if hasattr(ev, "guard_of") else None
                ctx.need(loop_guard is not None, R, "path condition of the finalize frame loop not available")
                total = S.cond(loop_guard, S.emax(S.ZERO, nf), S.ZERO)
                rows_want = S.cond(S.cmp("<", buf_len, spec.GEOM["empty_below"]), S.ZERO, S.emax(S.ZERO, nf_want))
                what = "%s frames owed by finalize for a signal of buf_len samples, as compute_full counts them (none when buf_len < L//2 + 1)" % tag
                r = S.compare(total, rows_want, domain={})
                if r["verdict"] != "equal":
                    r = S.compare_on_grid(total, rows_want, _grid({"buf_len": _grid()["N"], "N": [Fraction(0)]}),
                                          lambda e: e["S"] <= e["L"] and e["buf_len"] <= 3 * e["L"] + 2)
                if r["verdict"] in ("equal", "equal-on-grid"):
                    ctx.ok("R-C01-short-signal", f.loc(loop), what + ("" if r["verdict"] == "equal" else " (%s; %d points)" % (GRID_NOTE.replace("N in", "buf_len in"), r["points"])))
                elif r["verdict"] == "differ":
                    ctx.bad("R-C01-short-signal", f, loop, "%s is %s, expected %s; they differ e.g. at %s (%s vs %s): streaming emits frames for a signal "
                            "too short for compute_full to emit any" % (what, S.show(total)[:120], S.show(rows_want)[:100], r["witness"], r["values"][0], r["values"][1]),
                            what, extra={"witness": r["witness"]})
                else:
                    raise AnalysisError("R-C01-short-signal: %s" % r.get("reason"))
            act = {"buf_len": sc.DOM["N"], "self._hist_len": sc.DOM["N"]}
            if first:
                nf_eff = S.cond(S.cmp("<", buf_len, spec.GEOM["empty_below"]), S.ZERO, nf_want)
            else:
                nf_eff = nf_want
                # frames actually emitted: the loop runs only under its path condition, and a non-positive count emits nothing
                lg = S.subst(ev.guard_of(loop), m) if hasattr(ev, "guard_of") else S.TRUE
                got_n, want_n = S.cond(lg, S.emax(S.ZERO, nf), S.ZERO), S.emax(S.ZERO, nf_want)
                r_ = S.compare(got_n, want_n, domain={})
                if r_["verdict"] != "equal":
                    r_ = S.compare_on_grid(got_n, want_n, _grid({"buf_len": _grid()["N"], "N": [Fraction(0)]}),
                                           lambda e: e["S"] <= e["L"] and e["buf_len"] <= 3 * e["L"] + 2)
                whatn = "%s finalize frame count" % tag
                if r_["verdict"] in ("equal", "equal-on-grid"):
                    ctx.ok(R, f.loc(loop), whatn + ("" if r_["verdict"] == "equal" else " (%s; %d points)" % (GRID_NOTE.replace("N in", "buf_len in"), r_["points"])))
                elif r_["verdict"] == "differ":
                    ctx.bad(R, f, loop, "%s is %s, expected %s; they differ e.g. at %s (%s vs %s)" % (whatn, S.show(got_n)[:120], S.show(want_n)[:100], r_["witness"],
                                                                                                      r_["values"][0], r_["values"][1]), whatn, extra={"witness": r_["witness"]})
                else:
                    raise AnalysisError("%s: %s" % (R, r_.get("reason")))
            ctx.need(g["pad"] is not None, R, "np.pad not found in finalize")
            ctx.check(g["pad"]["mode"] == S.lift("symmetric"), R, f, st, "%s finalize pads symmetrically, like compute_full" % tag,
                      "finalize pads with mode %s but compute_full with 'symmetric'" % S.show(g["pad"]["mode"]))
            # the padded array: a tail of the buffer holding at least the buf_len pending samples
            src = g["pad"]["src"]
            ok = cc.is_call(src, "getitem") and cc.is_call(src.args[2], "slice") and src.args[2].args[2] == S.NONE and src.args[1].op == "sym"
            ctx.check(ok, R, f, st, "%s what gets padded is a tail of the sample buffer" % tag, "finalize pads %s" % S.show(src)[:100])
            if not ok:
                continue
            lo_ = src.args[2].args[1]
            depth = S.neg(lo_) if (lo_.op == "neg" or (S.is_num(lo_) and lo_.value < 0)) else S.sub(sc.L, lo_)
            for y in S.walk(lo_):
                # L - (L - y) is y
                if y.op in ("max", "sym") and S.compare(depth, y, domain={})["verdict"] == "equal":
                    depth = y
                    break
            r_eq = S.compare(depth, buf_len, domain={})["verdict"] == "equal"
            at_least = r_eq or (depth.op == "max" and any(S.compare(a_, buf_len, domain={})["verdict"] == "equal" for a_ in depth.args))
            ctx.check(at_least, R, f, st, "%s the padded tail holds at least the buf_len samples still awaiting a frame" % tag,
                      "finalize pads a tail of %s samples, which need not contain the buf_len pending ones" % S.show(depth)[:60])
            skipped = S.sub(depth, buf_len)  # retained samples that were framed already: dropped again after padding
            active = S.cmp(">=", nf_eff, S.ONE)

            def when_active(e):
                return S.cond(active, e, S.ZERO)
            dom_a = dict(sc.DOM, **act)
            _same_grid(ctx, R, f, st, "%s finalize left padding (when a frame is owed)" % tag, when_active(S.subst(g["pad"]["left"], m)), when_active(pl_eff), first)
            pr_want = S.sub(S.sub(S.add(S.mul(S.sub(nf_eff, S.ONE), sc.Sh), sc.L), buf_len), pl_eff)
            _same_grid(ctx, R, f, st, "%s finalize right padding (when a frame is owed)" % tag, when_active(g["pad"]["right"]), when_active(pr_want), first)
            k = S.sym(loop.target.id)
            dom = dict(sc.DOM, **{k.args[0]: sc.DOM["N"]})
            dom.update(act)
            sc.same(ctx, R, f, st, "%s finalize frame k starts k*S after the first pending sample's frame (already framed history is skipped)" % tag,
                    g["frame_lo"], S.add(skipped, S.mul(k, sc.Sh)), dom)
            sc.same(ctx, R, f, st, "%s finalize frame length" % tag, S.sub(g["frame_hi"], g["frame_lo"]), sc.L, dom)
    # compute_chunk: first (centered) frame length and its reflected left context
    for style, kaldi in sc.CONFIGS:
        if style != "centered":
            continue
        name = sc.cfg_name(style, kaldi)
        pl_spec = spec.geom_pad_left(style, kaldi)
        f, ev = sc.np_eval(prog, "compute.ShortTimeFourierTransformFrameComputer.compute_chunk", style, kaldi,
                           extra_seed={"self._first_frame": True}, no_inline=("_compute_frame",))
        fl = [n_ for n_ in f.body_nodes() if isinstance(n_, ast.Assign) and astq.is_name(n_.targets[0], "num_frames")]
        ctx.need(len(fl) >= 1, R, "num_frames assignment not found in compute_chunk")
        first_len = ev.eval_at(fl[0], ast.parse("frame_length", mode="eval").body)
        n += 1
        sc.same(ctx, R, f, fl[0], "[%s] first frame needs L - pad_left real samples" % name, first_len, S.sub(sc.L, pl_spec))
        pads = [c for c in astq.func_calls(f) if prog.qualify(f.module, c.func, f) == "numpy.pad" and ev.reached(astq.enclosing_stmt(astq.parents(f), c))]
        ctx.need(len(pads) == 1, R, "expected exactly one reachable np.pad in compute_chunk for %s, found %d" % (name, len(pads)))
        pst = astq.enclosing_stmt(astq.parents(f), pads[0])
        tup = ev.eval_at(pst, pads[0].args[1])
        mode = ev.eval_at(pst, pads[0].args[2])
        ctx.check(mode == S.lift("symmetric"), R, f, pst, "[%s] the first frame's left context is a symmetric reflection" % name,
                  "compute_chunk reflects with mode %s" % S.show(mode))
        ctx.need(cc.is_call(tup, "tuple") and len(tup.args) == 3, R, "np.pad widths not a pair")
        # inside the branch frame_length has been reset to L
        sc.same(ctx, R, f, pst, "[%s] reflected left context of the first frame" % name, tup.args[1], pl_spec)
        sc.same(ctx, R, f, pst, "[%s] no right padding while streaming" % name, tup.args[2], S.ZERO)
    ctx.floor(R, n, 8)


def _fresh_state(prog):
    """constant values that finalize() leaves in the instance's scalar attributes (the state every utterance starts from)"""
    f = prog.func("compute.ShortTimeFourierTransformFrameComputer.finalize")
    out = {}
    for n in f.node.body:
        if isinstance(n, ast.Assign) and len(n.targets) == 1 and astq.is_self_attr(n.targets[0], f.params[0]) and isinstance(n.value, ast.Constant):
            out["self." + n.targets[0].attr] = n.value.value
    return out


def _tail_depth(ctx, R, prog, f, ev, st):
    """number of samples in the buffer tail handed to np.pad: buf[-d:] holds d, buf[a:] holds size - a (the buffer is
    allocated with frame_length samples)"""
    pads = [c for c in ast.walk(st) if isinstance(c, ast.Call) and prog.qualify(f.module, c.func, f) == "numpy.pad"]
    if len(pads) != 1:
        pm = astq.parents(f)
        pads = [c for c in astq.func_calls(f) if prog.qualify(f.module, c.func, f) == "numpy.pad"]
    ctx.need(len(pads) == 1, R, "np.pad call not found in finalize")
    a0 = pads[0].args[0]
    ctx.need(isinstance(a0, ast.Subscript) and isinstance(a0.slice, ast.Slice) and a0.slice.upper is None and a0.slice.step is None and a0.slice.lower is not None, R,
             "np.pad is not applied to a tail slice: %s" % astq.text(a0))
    pst = astq.enclosing_stmt(astq.parents(f), pads[0])
    low = a0.slice.lower
    if isinstance(low, ast.UnaryOp) and isinstance(low.op, ast.USub):
        return sc.canon_len(ev.eval_at(pst, low.operand), [])
    init = prog.own_method(prog.cls("compute.ShortTimeFourierTransformFrameComputer"), "__init__")
    alloc = [n for n in init.body_nodes() if isinstance(n, ast.Assign) and astq.is_self_attr(n.targets[0], init.params[0], "_buf")]
    ctx.need(len(alloc) == 1 and isinstance(alloc[0].value, ast.Call) and alloc[0].value.args and astq.text(alloc[0].value.args[0]) == "self._frame_length", R,
             "the sample buffer is not allocated with frame_length samples")
    return S.sub(sc.L, ev.eval_at(pst, low))


def _full_sibling(ctx, R="R-C01-geom-siblings"):
    """the one-shot side of the sibling comparison: compute_full's own geometry against the same closed forms the streaming
    path is held to (frame count, paddings, frame bounds per frame style / kaldi_shift)"""
    from .c02 import geom
    geom(ctx, R)


def instance_state_only(ctx, R="R-C01-carry-reset"):
    """what is carried from chunk to chunk lives on the instance: a buffer or counter kept in a module-level or class-level object is
    shared with every other computer of the process, and a second stream (or a compute_full on another instance) in between
    overwrites the history the next chunk relies on (the rule of C04, re-established here)"""
    from .c04 import no_module_state
    no_module_state(ctx, R)


def any_layout(ctx, R="R-C01-driver"):
    """every float signal is a valid input of the streaming interface and of compute_full, whatever its memory layout"""
    from . import partial
    prog = ctx.prog
    roots = []
    for cname in ("compute.ShortTimeFourierTransformFrameComputer", "compute.ShortIntegrationFrameComputer"):
        for meth in ("compute_chunk", "compute_full", "finalize"):
            m = prog.find_method(prog.cls(cname), meth)
            if m is not None and m not in roots:
                roots.append(m)
    roots.append(prog.func("compute.frame_by_frame_calculation"))
    partial.layout_independent(ctx, R, roots)


def frame_style_domain(ctx, R="R-C01-geom-siblings"):
    """compute_chunk, finalize and compute_full each decide the frame geometry by comparing the stored frame style with a
    literal - some with 'centered', some with 'causal', the other style being the else branch.  They agree only if the stored
    value is one of exactly these two strings: the constructor's test is evaluated for spellings a lenient validation would let
    through (capitalised, padded), and whatever is accepted must be stored as 'causal' or 'centered'."""
    from .. import scenario as SC
    prog = ctx.prog
    what = "a frame style the constructor accepts is stored as 'causal' or 'centered' (the only values the framing code tells apart)"
    n = 0
    for cname in ("compute.ShortTimeFourierTransformFrameComputer", "compute.ShortIntegrationFrameComputer"):
        c = prog.cls(cname)
        init = prog.find_method(c, "__init__")
        if init is None or "frame_style" not in init.all_param_names():
            ctx.error(R, "cannot decide %s: %s has no frame_style parameter" % (what, c.name))
            continue
        try:
            ev = SymEval(prog, init, inline_self=True).run()
        except Exception as e:
            ctx.error(R, "cannot decide %s: %r" % (what, e))
            continue
        stored = ev.env.get("self._frame_style")
        if stored is None:
            ctx.error(R, "cannot decide %s: %s.__init__ does not store self._frame_style" % (what, c.name))
            continue

        def at(e, v):
            def fn(x):
                if x.op == "sym" and x.args[0] == "frame_style":
                    return S.lift(v)
                if x.op == "call" and x.args[0] in (".lower", ".upper", ".strip", ".casefold") and len(x.args) == 2 and x.args[1].is_const and isinstance(x.args[1].value, str):
                    return S.lift(getattr(x.args[1].value, x.args[0][1:])())
                if x.op == "cmp" and x.args[0] in ("is", "is not") and x.args[2] == S.NONE and x.args[1].is_const and x.args[1].value is not None:
                    return S.lift(x.args[0] == "is not")
                if x.op == "cmp" and x.args[0] in ("==", "!=") and x.args[1].is_const and x.args[2].is_const:
                    return S.lift((x.args[1].value == x.args[2].value) == (x.args[0] == "=="))
                return SC.fold_membership(x)
            out = e
            for _ in range(5):
                nxt = SC.transform(out, fn)
                if nxt == out:
                    break
                out = nxt
            return out
        decided = True
        for v in ("causal", "centered", "Causal", "Centered", "CENTERED", "CAUSAL", " centered", "centred", "x"):
            gs = [at(g, v) for g, _ in ev.raises]
            # guards that depend on other arguments (the bank, the window) are not about the style
            gs = [g for g in gs if g.is_const]
            rejected = any(S.truthy(g) for g in gs)
            if rejected:
                continue
            sv = at(stored, v)
            if not sv.is_const:
                decided = False
                break
            n += 1
            if sv.value not in ("causal", "centered"):
                ctx.bad(R, init, init.node, "%s(frame_style=%r) is accepted and stored as %r: compute_chunk tests the style against 'centered', finalize and compute_full "
                        "against 'causal', so such a computer frames its chunks one way and the whole signal the other (different frame counts and values)"
                        % (c.name, v, sv.value), what, robust=True)
                decided = None
                break
        if decided:
            ctx.ok(R, init.loc(), what, "%s: constructor evaluated for 9 spellings" % c.name)
        elif decided is False:
            ctx.error(R, "cannot decide %s for %s: the stored value is %s" % (what, c.name, S.show(stored)[:120]))
    ctx.floor(R + "/frame-style", n, 2)


def split_invariance(ctx, R="R-C01-split"):
    """Cutting a chunk in two changes nothing.  compute_chunk, once the first frame is out, is summarised in closed form by
    forward substitution: frames emitted n(N; state) and the scalars carried to the next call state'(N; state), N the chunk
    length.  Feeding N1 then N2 samples must emit as many frames and leave the same carried scalars as feeding N1 + N2 at
    once - in particular for N2 = 0 (an interleaved empty chunk) and N2 = 1.  Decided by exact evaluation on a grid of
    frame lengths, shifts, carried states within the computer's invariants, and chunk lengths."""
    import itertools
    prog = ctx.prog
    f1 = prog.func("compute.ShortTimeFourierTransformFrameComputer.compute_chunk")
    sig = f1.params[1]
    n_cfg = 0
    for style, kaldi in sc.CONFIGS:
        name = sc.cfg_name(style, kaldi)
        seed = {"self._frame_style": style, "self._kaldi_shift": kaldi, "self._first_frame": False, "self._started": True}
        try:
            ev1 = SymEval(prog, f1, seed=seed, rename=sc.NP_RENAME, inline_self=True, no_inline={"_compute_frame"}, loop_summary=True).run()
        except Exception as e:
            ctx.error(R, "cannot decide [%s]: %r" % (name, e))
            continue
        if len(ev1.returns) != 1:
            ctx.error(R, "cannot decide [%s]: compute_chunk has several returns in the steady state" % name)
            continue
        sh = sc._alloc_shape(ev1.returns[0][1])
        if sh is None:
            ctx.error(R, "cannot decide [%s]: compute_chunk does not return a fresh (rows, cols) array" % name)
            continue
        frames = sc.canon_len(sh[0], [sig])
        state = {}
        for k, v in ev1.env.items():
            if not (k.startswith("self._") and k.count(".") == 1) or k in ("self._buf", "self._started", "self._first_frame", "self._chunk_dtype"):
                continue
            v = sc.canon_len(v, [sig])
            if S.has_unknown(v):
                continue
            state[k] = v
        free = set()
        for e in [frames] + list(state.values()):
            free |= set(S.symbols(e))
        carried = sorted(k for k in state)
        outside = free - {"N", "L", "S"} - set(carried)
        if "self._buf_len" not in state or outside:
            ctx.error(R, "cannot decide [%s]: the carried state is not closed (%s)" % (name, sorted(outside) or "fill count has no closed form"))
            continue
        n_cfg += 1

        def ev(e, env):
            return S.evaluate(e, env)
        bad = None
        pts = 0
        for L in (2, 3, 4, 7, 10):
            for Sh in sorted({1, 2, L // 2, L - 1, L} - {0}):
                if Sh > L:
                    continue
                for b in range(0, L):
                    # carried scalars other than the fill count: any value between the fill count and the frame length (history
                    # counters), which is the invariant the closed forms themselves maintain
                    others = [k for k in carried if k != "self._buf_len"]
                    for hs in itertools.product(*[sorted({b, min(L, b + 1), L}) for _ in others]):
                        st0 = {"self._buf_len": Fraction(b)}
                        st0.update({k: Fraction(h) for k, h in zip(others, hs)})
                        for N1, N2 in ((0, 0), (1, 0), (3, 0), (L, 0), (2 * L + 1, 0), (0, 1), (1, 1), (L - 1, 1), (L, 1), (2, 3), (L + 1, L - 1), (3 * L, 2), (5, 2 * L + 3)):
                            try:
                                base = {"L": Fraction(L), "S": Fraction(Sh)}
                                e1 = dict(base, N=Fraction(N1), **st0)
                                n1 = ev(frames, e1)
                                st1 = {k: ev(v, e1) for k, v in state.items()}
                                e2 = dict(base, N=Fraction(N2), **st1)
                                n2 = ev(frames, e2)
                                st2 = {k: ev(v, e2) for k, v in state.items()}
                                e12 = dict(base, N=Fraction(N1 + N2), **st0)
                                n12 = ev(frames, e12)
                                st12 = {k: ev(v, e12) for k, v in state.items()}
                            except Exception:
                                continue
                            pts += 1
                            if n1 + n2 != n12 or st2 != st12:
                                diff = [k for k in carried if st2[k] != st12[k]]
                                bad = (L, Sh, dict((k, int(v)) for k, v in st0.items()), N1, N2, int(n1 + n2), int(n12), diff,
                                       {k: (int(st2[k]), int(st12[k])) for k in diff})
                                break
                        if bad:
                            break
                    if bad:
                        break
                if bad:
                    break
            if bad:
                break
        what = "[%s] feeding N1 then N2 samples emits the frames and leaves the carried scalars of feeding N1 + N2 at once (empty and one-sample chunks included)" % name
        if bad:
            L, Sh, st0, N1, N2, na, nb_, diff, vals = bad
            ctx.bad(R, f1, f1.node, "%s: with frame length %d, shift %d and carried state %s, chunks of %d then %d samples give %d frame(s)%s; one chunk of %d samples gives %d%s"
                    % (name, L, Sh, st0, N1, N2, na, (" and " + ", ".join("%s=%d" % (k.split(".")[-1], vals[k][0]) for k in diff)) if diff else "", N1 + N2, nb_,
                       (" and " + ", ".join("%s=%d" % (k.split(".")[-1], vals[k][1]) for k in diff)) if diff else ""), what, robust=True)
        elif pts:
            ctx.ok(R, f1.loc(), what, "carried scalars %s; %d grid points" % ([k.split(".")[-1] for k in carried], pts))
        else:
            ctx.error(R, "cannot decide [%s]: no grid point could be evaluated" % name)
    ctx.floor(R, n_cfg, 4)


def single_chunk_history(ctx, R="R-C01-one-chunk-history"):
    """One particular history - the whole signal in one compute_chunk call, then finalize - summarised in closed form by
    forward substitution through both methods (the frame loop of compute_chunk is idempotent on the scalars it updates:
    only its first iteration, the reflected first frame, changes them).  Frame counts must add up to compute_full's, and
    the tail reflection in finalize must not reach further back than the samples it is applied to."""
    prog = ctx.prog
    n_cfg = 0
    for style, kaldi in sc.CONFIGS:
        name = sc.cfg_name(style, kaldi)
        f1 = prog.func("compute.ShortTimeFourierTransformFrameComputer.compute_chunk")
        seed = {"self._frame_style": style, "self._kaldi_shift": kaldi, "self._first_frame": True, "self._buf_len": 0, "self._started": False}
        # every other scalar the streaming state consists of starts at the value finalize / __init__ give it
        seed.update(_fresh_state(prog))
        ev1 = SymEval(prog, f1, seed=seed, rename=sc.NP_RENAME, inline_self=True, no_inline={"_compute_frame"}, loop_summary=True).run()
        sig = f1.params[1]
        ctx.need(len(ev1.returns) == 1, R, "compute_chunk has several returns")
        sh = sc._alloc_shape(ev1.returns[0][1])
        ctx.need(sh is not None, R, "compute_chunk does not return a fresh (rows, cols) array")
        n1 = sc.canon_len(sh[0], [sig])
        state = {}
        for attr in ("self._buf_len", "self._first_frame"):
            v = ev1.env.get(attr)
            if v is None and attr in seed:
                v = seed[attr] if isinstance(seed[attr], S.E) else S.lift(seed[attr])  # never written on this configuration's paths: the entry value stays
            ctx.need(v is not None and not S.has_unknown(v), R, "[%s] %s after compute_chunk has no closed form: %s" % (name, attr, S.show(v)[:80] if v is not None else None))
            state[attr] = sc.canon_len(v, [sig])
        extra = {k: sc.canon_len(v, [sig]) for k, v in ev1.env.items() if k.startswith("self._") and k not in state and k not in ("self._buf",)
                 and not S.has_unknown(v) and k.count(".") == 1}
        f2 = prog.func("compute.ShortTimeFourierTransformFrameComputer.finalize")
        seed2 = {"self._frame_style": style, "self._kaldi_shift": kaldi}
        seed2.update(state)
        seed2.update({k: v for k, v in extra.items() if k not in ("self._started", "self._chunk_dtype")})
        ev2 = SymEval(prog, f2, seed=seed2, rename=sc.NP_RENAME, inline_self=True, no_inline={"_compute_frame"}).run()
        calls = sc._compute_frame_call(f2, ev2)
        ctx.need(len(calls) == 1, R, "finalize does not call _compute_frame exactly once (in a loop)")
        pm = astq.parents(f2)
        loop = [a for a in astq.ancestors(pm, calls[0]) if isinstance(a, ast.For)][0]
        it = ev2.eval_at(loop, loop.iter)
        ctx.need(cc.is_call(it, "range") and len(it.args) == 2, R, "finalize frame loop is not range(num_frames)")
        g2 = ev2.guard_of(loop)
        n2 = S.cond(g2, S.emax(S.ZERO, it.args[1]), S.ZERO)
        total = S.add(n1, n2)
        want = S.cond(S.cmp("<", sc.N, spec.GEOM["empty_below"]), S.ZERO, spec.GEOM["num_frames"])
        n_cfg += 1
        r = S.compare(total, want, domain={})
        if r["verdict"] != "equal":
            r = S.compare_on_grid(total, want, _grid(), _grid_ok)
        if r["verdict"] == "equal":
            ctx.ok(R, f2.loc(loop), "[%s] frames of compute_chunk(x) + finalize() == frames of compute_full(x), identically in N, L, S" % name)
        elif r["verdict"] == "equal-on-grid":
            ctx.ok(R, f2.loc(loop), "[%s] frames of compute_chunk(x) + finalize() == frames of compute_full(x) (%s; %d points)" % (name, GRID_NOTE, r["points"]))
        elif r["verdict"] == "differ":
            w = r["witness"]
            try:
                a = S.evaluate(n1, {k: Fraction(v) for k, v in w.items()})
            except Exception:
                a = "?"
            ctx.bad(R, f2, loop, "[%s] fed a whole signal in one chunk, compute_chunk emits %s and finalize %s frames; compute_full returns %s "
                    "(e.g. at %s: %s vs %s frames in total)" % (name, S.show(n1)[:90], S.show(it.args[1])[:90], S.show(want)[:80], w, r["values"][0], r["values"][1]),
                    "streaming and one-shot frame counts agree", extra={"witness": w})
        else:
            raise AnalysisError("%s: [%s] frame counts: %s" % (R, name, r.get("reason")))
        # tail reflection: finalize pads an array of `depth` samples by pad_right on the right; numpy's symmetric padding
        # equals the reflection of the signal's own tail only while pad_right <= depth
        st = astq.enclosing_stmt(pm, calls[0])
        frame = ev2.eval_at(st, calls[0].args[0])
        g = sc._parse_np_frame(R, frame, "self._buf", "finalize")
        ctx.need(g["pad"] is not None, R, "np.pad not found in finalize")
        src = g["pad"]["src"]
        ctx.need(cc.is_call(src, "getitem") and cc.is_call(src.args[2], "slice") and src.args[2].args[2] == S.NONE, R,
                 "finalize pads %s, not a tail slice of the buffer" % S.show(src)[:80])
        depth = _tail_depth(ctx, R, prog, f2, ev2, st)
        active = S.eand(g2, S.cmp(">=", it.args[1], S.ONE))
        # (when the padded array is the whole signal - nothing emitted yet - both paths fold the same array the same way)
        over = S.cond(S.eand(active, S.cmp(">", g["pad"]["right"], depth), S.cmp("!=", depth, sc.N)), S.ONE, S.ZERO)
        RR = "R-C01-reflection-depth"
        r = S.compare_on_grid(over, S.ZERO, _grid(), _grid_ok)
        if r["verdict"] == "equal-on-grid":
            ctx.ok(RR, f2.loc(st), "[%s] finalize never reflects further back than the %s samples it pads (%s; %d points)"
                   % (name, S.show(depth)[:40], GRID_NOTE, r["points"]))
        elif r["verdict"] == "differ":
            w = r["witness"]
            envw = {k: Fraction(v) for k, v in w.items()}
            try:
                pr, dp = S.evaluate(g["pad"]["right"], envw), S.evaluate(depth, envw)
            except Exception:
                pr = dp = "?"
            ctx.bad(RR, f2, st, "[%s] at %s finalize reflects %s samples beyond the end of an array of only %s retained samples: numpy's symmetric "
                    "padding then folds back and forth inside the short remainder, whereas compute_full reflects the signal itself, so the last "
                    "frame(s) differ between streaming and one-shot computation" % (name, w, pr, dp), "tail reflection within the retained samples",
                    extra={"witness": w})
        else:
            raise AnalysisError("%s: [%s] %s" % (RR, name, r.get("reason")))
    ctx.floor(R, n_cfg, 4)


def si_finalize(ctx, R="R-C01-si-finalize"):
    prog = ctx.prog
    for style in ("centered", "causal"):
        f, ev = sc.np_eval(prog, "compute.ShortIntegrationFrameComputer.finalize", style, False,
                           extra_seed={"self._started": True}, no_inline=("compute_chunk",))
        nf = ev.env.get("num_frames")
        bl = ev.env.get("buf_len")
        ctx.need(nf is not None and bl is not None, R, "num_frames / buf_len not found in SI finalize")
        borrowed = sc.Sh if style == "centered" else S.ZERO
        bl_want = S.sub(S.add(S.add(S.sub(S.sym("self._translation"), S.sym("self._skip")), S.sym("self._x_rem")), S.sym("self._y_rem")), borrowed)
        dom = {k: sc.DOM["N"] for k in ("self._translation", "self._skip", "self._x_rem", "self._y_rem")}
        dom.update(sc.DOM)
        if S.has_unknown(nf) or S.has_unknown(bl):
            # the flush is taken only on some paths: frames owed, as a total function of the carried state
            unb = {x: S.ZERO for x in S.walk(nf) if x.op == "unknown"}
            nf_total = S.subst(nf, unb)
            ctx.need(not S.has_unknown(nf_total), R, "frame count of SI finalize depends on an untracked value")
            sc.same(ctx, R, f, f.node, "[%s] frames owed by finalize as a function of the carried state (0 where it skips the flush)" % style,
                    nf_total, S.emax(S.ZERO, S.floordiv(S.add(bl_want, S.floordiv(sc.Sh, S.lift(2))), sc.Sh)), dom)
            leaves = [leaf for tests, leaf in cc.strip_cond(bl) if not S.has_unknown(leaf)]
            ctx.need(len(leaves) == 1, R, "buf_len of SI finalize has no single closed form")
            nf_leaves = [leaf for tests, leaf in cc.strip_cond(nf) if not S.has_unknown(leaf)]
            ctx.need(len(nf_leaves) == 1, R, "num_frames of SI finalize has no single closed form")
            bl, nf = leaves[0], nf_leaves[0]
        borrowed = sc.Sh if style == "centered" else S.ZERO
        bl_want = S.sub(S.add(S.add(S.sub(S.sym("self._translation"), S.sym("self._skip")), S.sym("self._x_rem")), S.sym("self._y_rem")), borrowed)
        dom = {k: sc.DOM["N"] for k in ("self._translation", "self._skip", "self._x_rem", "self._y_rem")}
        dom.update(sc.DOM)
        sc.same(ctx, R, f, f.node, "[%s] samples still owed a frame = translation - skip + x_rem + y_rem - borrowed" % style, bl, bl_want, dom)
        blv = S.sym("buf_len")
        nf_sub = S.subst(nf, {bl: blv}) if bl != blv else nf
        sc.same(ctx, R, f, f.node, "[%s] SI finalize frame count is (buf_len + S//2)//S" % style,
                nf_sub, S.emax(S.ZERO, S.floordiv(S.add(blv, S.floordiv(sc.Sh, S.lift(2))), sc.Sh)), dict(sc.DOM, buf_len=[S.Fraction(v) for v in (-3, -1, 0, 1, 2, 5, 8)]))
        # the flush: compute_chunk(zeros(pad_right))[:num_frames] with pad_right = (nf-1)*S + frame_length - buf_len
        calls = [c for c in astq.func_calls(f) if astq.attr_call(c, "compute_chunk")]
        ctx.need(len(calls) == 1, R, "SI finalize does not flush through compute_chunk")
        pm = astq.parents(f)
        st = astq.enclosing_stmt(pm, calls[0])
        pr = ev.eval_at(st, ast.parse("pad_right", mode="eval").body)
        pr = S.subst(pr, {bl: blv, nf: S.sym("num_frames")})
        want = S.sub(S.add(S.mul(S.sub(S.sym("num_frames"), S.ONE), sc.Sh), sc.L), blv)
        sc.same(ctx, R, f, st, "[%s] zero padding flushed through compute_chunk" % style, pr, want,
                dict(sc.DOM, buf_len=sc.DOM["N"], num_frames=sc.DOM["S"]))
        z = calls[0].args[0]
        ok = isinstance(z, ast.Call) and prog.qualify(f.module, z.func, f) == "numpy.zeros"
        ctx.check(ok, R, f, st, "[%s] the flush feeds zeros (signal taken as zero beyond its end)" % style, "flush feeds %s" % astq.text(z))
        par = pm.get(id(calls[0]))
        ok = isinstance(par, ast.Subscript) and isinstance(par.slice, ast.Slice) and par.slice.lower is None and astq.text(par.slice.upper) == "num_frames"
        ctx.check(ok, R, f, st, "[%s] only the owed frames of the flush are kept ([:num_frames])" % style, "flush result is not sliced [:num_frames]")


def carry(ctx, R="R-C01-carry"):
    prog = ctx.prog
    stft = prog.cls("compute.ShortTimeFourierTransformFrameComputer")
    f = prog.own_method(stft, "compute_chunk")
    cfg = CFG(f.node)
    dom = cfg.dominators()
    rets = astq.returns_of(f)
    ctx.need(rets, R, "compute_chunk has no return")
    for attr in ("_buf_len", "_started"):
        stores = [n for n in f.body_nodes() if isinstance(n, ast.Assign) and any(astq.is_self_attr(t, f.params[0], attr) for t in n.targets)]
        for r in rets:
            nr = cfg.node(r)
            ok = any(cfg.node(s) in dom.get(nr, ()) for s in stores)
            ctx.check(ok, R, f, r, "self.%s is written on every path to this return" % attr,
                      "compute_chunk can return without updating self.%s; the next chunk would start from stale state" % attr)
    bl = [n for n in f.body_nodes() if isinstance(n, ast.Assign) and any(astq.is_self_attr(t, f.params[0], "_buf_len") for t in n.targets)]
    ctx.check(len(bl) == 1 and astq.text(bl[0].value) == "rem_len", R, f, bl[0] if bl else MISSING(f.node),
              "the fill count carried to the next chunk is the number of samples not yet covered by an emitted frame", structural=True)
    ev = SymEval(prog, f, rename=sc.NP_RENAME, seed={"self._frame_style": "causal"}, inline_props=False).run()
    rem = [n for n in f.body_nodes() if isinstance(n, ast.Assign) and astq.is_name(n.targets[0], "rem_len")]
    ctx.need(len(rem) == 1, R, "rem_len assignment not found")
    v = ev.eval_at(rem[0], rem[0].value)
    ctx.check(astq.eq_text(rem[0].value, "total_len-num_frames*frame_shift"), R, f, rem[0],
              "remainder = samples available - frames emitted x shift", "remainder is %s" % astq.text(rem[0].value), structural=True)
    nfr = [n for n in f.body_nodes() if isinstance(n, ast.Assign) and astq.is_name(n.targets[0], "num_frames")]
    v = ev.eval_at(nfr[0], nfr[0].value)
    v = S.subst(v, {S.call("len", S.sym("chunk")): S.sym("chunk_len"), S.sym("self._buf_len"): S.sym("buf_len")})
    want = S.emax(S.ZERO, S.add(S.floordiv(S.sub(S.add(S.sym("chunk_len"), S.sym("buf_len")), sc.L), sc.Sh), S.ONE))
    sc.same(ctx, R, f, nfr[0], "[causal] frames emitted by a chunk = max(0, (available - L)//S + 1)", v, want,
            dict(sc.DOM, chunk_len=sc.DOM["N"], buf_len=sc.DOM["buf_len"]))


def shift_register(ctx, R="R-C01-shift-register"):
    """The short-integration raw-sample buffer is a shift register: every update either
    shifts it left by n and writes n new samples at its right end, or overwrites it
    with the *most recent* len(buffer) samples of the block being pushed."""
    prog = ctx.prog
    c = prog.cls("compute.ShortIntegrationFrameComputer")
    n_w = 0
    Lsym = S.sym("LEN")
    for f in c.methods.values():
        if f.name == "__init__" or not f.params:
            continue
        s_ = f.params[0]
        stores = [n for n in f.body_nodes() if isinstance(n, ast.Assign) and isinstance(n.targets[0], ast.Subscript)
                  and astq.is_self_attr(n.targets[0].value, s_, "_x_buf") and isinstance(n.targets[0].slice, ast.Slice)]
        if not stores:
            continue
        ev = SymEval(prog, f, inline_props=False)
        ev.env = {}
        lenmap = {S.sym("self._dft_size"): Lsym, S.call("len", S.sym("self._x_buf")): Lsym}
        # locals bound once to the length of a block (n = len(block))
        len_alias = {}
        for n_ in f.body_nodes():
            if (isinstance(n_, ast.Assign) and len(n_.targets) == 1 and isinstance(n_.targets[0], ast.Name) and isinstance(n_.value, ast.Call)
                    and astq.is_name(n_.value.func, "len") and len(n_.value.args) == 1 and isinstance(n_.value.args[0], ast.Name)):
                nm_ = n_.targets[0].id
                if sum(1 for y in f.body_nodes() if isinstance(y, ast.Name) and y.id == nm_ and isinstance(y.ctx, ast.Store)) == 1 and nm_ != "x_len":
                    len_alias[S.sym(nm_)] = S.call("len", S.sym(n_.value.args[0].id))

        def E(node):
            if node is None:
                return S.NONE
            e = ev.expr(node)
            # local aliases of the buffer length
            for nm in ("x_len",):
                e = S.subst(e, {S.sym(nm): Lsym})
            if len_alias:
                e = S.subst(e, len_alias)
            return S.subst(e, lenmap)

        def norm_lo(e):  # slice lower bound: None -> 0, negative k -> LEN + k
            if e == S.NONE:
                return S.ZERO
            if e.op == "neg":
                return S.sub(Lsym, e.args[0])
            return e

        def norm_hi(e):
            if e == S.NONE:
                return Lsym
            if e.op == "neg":
                return S.sub(Lsym, e.args[0])
            return e

        for st in stores:
            n_w += 1
            t, v = st.targets[0].slice, st.value
            tlo, thi = norm_lo(E(t.lower)), norm_hi(E(t.upper))
            if isinstance(v, ast.Subscript) and astq.is_self_attr(v.value, s_, "_x_buf") and isinstance(v.slice, ast.Slice):
                # shift: buf[:A] = buf[B:]  with A + B == LEN
                vlo = norm_lo(E(v.slice.lower))
                ok = tlo == S.ZERO and v.slice.upper is None and S.compare(S.add(thi, vlo), Lsym, domain={})["verdict"] == "equal"
                ctx.check(ok, R, f, st, "shifting keeps the newest samples: buf[:L-n] = buf[n:]",
                          "the raw-sample buffer is shifted inconsistently (%s): samples are lost or duplicated between chunks" % astq.text(st)[:100])
                continue
            # data written into the buffer
            if not (isinstance(v, (ast.Subscript, ast.Name))):
                continue
            if isinstance(v, ast.Name):
                continue  # whole block written into a slice of matching length (checked by NumPy at run time)
            if not isinstance(v.slice, ast.Slice):
                continue
            full = tlo == S.ZERO and thi == Lsym
            vlo_raw, vhi_raw = v.slice.lower, v.slice.upper
            if full:
                prefix = (vlo_raw is None or astq.text(vlo_raw) == "0") and vhi_raw is not None and not (isinstance(vhi_raw, ast.UnaryOp))
                ctx.check(not prefix, R, f, st, "a block longer than the buffer leaves its most recent samples in the buffer",
                          "when the pushed block is at least as long as the buffer, its *first* samples are kept (%s); the overlap-save "
                          "convolution of the following samples needs the most recent ones, so the next frames are wrong"
                          % astq.text(st)[:100])
                if not prefix:
                    # suffix form: [a - LEN : a] or [-LEN:]
                    lo, hi = E(vlo_raw), E(vhi_raw)
                    # a slice of a slice: x[a:b][c:] starts at a + c and ends where x[a:b] ends (c counts from the start of the inner
                    # slice, whose length is b - a)
                    inner = v.value
                    if isinstance(inner, ast.Subscript) and isinstance(inner.slice, ast.Slice) and inner.slice.step is None:
                        ilo, ihi = norm_lo(E(inner.slice.lower)), E(inner.slice.upper)
                        ilen = S.sub(ihi, ilo) if ihi != S.NONE else S.sub(S.call("len", E(inner.value)), ilo)
                        lo = S.subst(lo, {S.call("len", E(inner)): ilen})
                        base_len = ilen
                    else:
                        base_len = S.call("len", E(inner))
                    if hi == S.NONE:
                        ok = (lo.op == "neg" and lo.args[0] == Lsym) or S.compare(lo, S.sub(base_len, Lsym), domain={})["verdict"] == "equal"
                    else:
                        ok = S.compare(S.sub(hi, lo), Lsym, domain={})["verdict"] == "equal"
                    ctx.check(ok, R, f, st, "the overwrite takes exactly len(buffer) samples ending where the pushed block ends",
                              "full overwrite takes %s" % astq.text(v)[:80])
            else:
                # tail write: buf[L-n:] = data[...] ; n samples
                ok_t = thi == Lsym
                ctx.check(ok_t, R, f, st, "new samples are written at the right end of the buffer", "new samples are written at %s" % astq.text(st.targets[0])[:80])
                # a stash made after the frame loop keeps the *last* samples of the chunk: its source slice ends where the chunk ends
                pm_ = astq.parents(f)
                in_loop = any(isinstance(a_, (ast.While, ast.For)) for a_ in astq.ancestors(pm_, st))
                used_later = any(isinstance(x_, ast.Name) and x_.id == getattr(v.value, "id", None) and x_.lineno > (st.end_lineno or st.lineno) for x_ in f.body_nodes())
                if ok_t and not in_loop and not used_later and isinstance(v.value, ast.Name) and v.value.id in f.all_param_names():
                    try:
                        evf = SymEval(prog, f, inline_props=False).run()
                        hi_e = S.NONE if vhi_raw is None else evf.eval_at(st, vhi_raw)
                        lo_e = S.NONE if vlo_raw is None else evf.eval_at(st, vlo_raw)
                    except Exception:
                        hi_e = lo_e = None
                    if hi_e is not None:
                        from .. import scenario as SC
                        try:
                            clen = evf.eval_at(st, ast.parse("len(%s)" % v.value.id, mode="eval").body)
                            g_ = evf.guard_of(st)
                        except Exception:
                            clen, g_ = S.call("len", S.sym(v.value.id)), S.TRUE
                        w = None
                        if hi_e == S.NONE:
                            ok_e = True
                        else:
                            hi_s = S.subst(hi_e, {S.sym("chunk_len"): clen})
                            (hi_q, len_q, g_q), names_ = SC.atomise(hi_s, clen, S.subst(g_, {S.sym("chunk_len"): clen}))
                            if S.compare(hi_q, len_q, domain={})["verdict"] == "equal":
                                ok_e = True
                            else:
                                syms_ = sorted(set(S.symbols(hi_q)) | set(S.symbols(len_q)) | set(S.symbols(g_q)))
                                dom = {nm_: [Fraction(k) for k in range(0, 6)] for nm_ in syms_}
                                reach = g_q if g_q.op in ("cmp", "and", "or", "not", "const") else S.cmp("<", S.ZERO, g_q)
                                try:
                                    w = S.find_witness(S.eand(reach, S.cmp("<", hi_q, len_q), S.cmp("<=", S.ZERO, hi_q)), dom, limit=300000) if len(syms_) <= 6 else None
                                except Exception:
                                    w = None
                                if w is not None:
                                    w = {names_.get(k, k)[:40]: v_ for k, v_ in w.items()}
                                ok_e = None if w is None else False
                        if ok_e is False:
                            ctx.bad(R, f, st, "the samples stashed after the frame loop are %s, which does not end at the end of the chunk (e.g. %s): when more samples "
                                    "remain than the buffer holds, older samples are kept and the newest are lost, so the frames that straddle the next "
                                    "chunk are wrong" % (astq.text(v)[:70], w), "the stash after the frame loop keeps the most recent samples of the chunk")
                        elif ok_e:
                            ctx.ok(R, f.loc(st), "the stash after the frame loop keeps the most recent samples of the chunk")
    ctx.floor(R, n_w, 2)


def carry_reset(ctx):
    """finalize leaves no carried state behind on any of its exits (shared with C04's
    reset-completeness rule: a fill count or first-frame flag surviving an early return of
    finalize makes the next chunked computation differ from compute_full)."""
    from . import c04

    prog = ctx.prog
    for cname in ("compute.ShortTimeFourierTransformFrameComputer", "compute.ShortIntegrationFrameComputer"):
        c04.reset(ctx, prog.cls(cname), R="R-C01-carry-reset")


def _frames_not_written(ctx, R="R-C01-frame-aliasing"):
    """Frames are views: of the padded signal in compute_full, of the caller's chunk or of the ring buffer in compute_chunk
    (a private copy only when a frame straddles both).  A per-frame routine that writes into its frame changes samples that
    later, overlapping frames read - by amounts that depend on where the chunk boundaries fall.  Decided by the effect
    analysis shared with C04: nothing reachable from compute_chunk / compute_full writes through an alias of the input."""
    from .c04 import readonly
    readonly(ctx, R)



def _second_chunk_accepted(ctx, R="R-C01-chunk-dtype"):
    """A signal cut into chunks is accepted exactly as the whole signal is: the dtype test applied to the second and later
    chunks compares with the first chunk's own dtype (rule shared with C03)."""
    from .c03 import chunk_dtype_fixed_point
    chunk_dtype_fixed_point(ctx, R)
