"""C20 - windows and helper functions follow their documented closed forms."""

import ast
import math
from fractions import Fraction

from .. import astq, spec, nonecheck
from .. import sym as S
from ..eff import Effects, FRESH
from ..report import MISSING
from ..model import AnalysisError
from ..symeval import SymEval
from . import cli_common as cc

LEVEL = "other"
TECHNIQUE = ("None-default data-flow (check-then-use contradiction), effect analysis with the `copy` flag, closed-form "
             "comparison of windows / gamma window / shift-theorem ramp / Hz<->rad maps, literal-table comparison with "
             "the published Odeh-Evans coefficients, purity (no memoisation) of response functions")
EXPLANATION = (
    "Decides: no None-defaulted parameter of the package (vis.py excluded) is dereferenced before its defaulting / "
    "guard; circshift_fourier fills in the documented default DFT size, multiplies in place only with copy=False on a "
    "complex128 input, and both branches apply the same phase ramp exp(-2 pi i shift/D ((start+j) mod D)); each window "
    "class returns np.<generator>(width) / (a0 max(1, width-1)) with a0 the generator's DC coefficient, in a fresh "
    "array, without memoisation; GammaWindow handles width <= 0 and 1, puts its mode at peak*width and normalises with "
    "ln c = n ln alpha - ln (n-1)! on a reversed support; the Odeh-Evans rational approximation has the ten published "
    "coefficients, the 1e-20 tail threshold, the documented folding/sign and is affine in (mu, std); hertz_to_angular "
    "and angular_to_hertz are mutual inverses as rational functions. Does NOT decide non-negativity of NumPy's window "
    "samples, sums up to O(1/width), the 1e-6 accuracy of the approximation or DFT shift identities numerically.")

NONE_SCOPE = ("util", "filters", "compute", "pre", "post", "torch", "scales", "alias", "command_line", "_sphere", "corpus")
BANK_CTORS = ("filters.TriangularOverlappingFilterBank.__init__", "filters.Fbank.__init__", "filters.GaborFilterBank.__init__",
              "filters.ComplexGammatoneFilterBank.__init__")


def none_findings(ctx, R, include):
    prog = ctx.prog
    n = 0
    for f in prog.functions.values():
        mod = f.module.name.rsplit(".", 1)[-1]
        if mod not in NONE_SCOPE or not include(f):
            continue
        for p in nonecheck.none_params(f):
            fs, tested = nonecheck.analyse(f, p)
            n += 1
            if not fs:
                ctx.ok(R, f.loc(), "optional parameter `%s` of %s is never dereferenced while it may be None" % (p, f.short))
            for st, node, how in fs:
                ctx.bad(R, f, st, "parameter `%s` defaults to None and is used here (%s: %s) on a path where it can still be None; "
                        "with the documented default this raises TypeError/AttributeError" % (p, how, astq.text(node)[:80]),
                        "no dereference of an optional parameter before its None guard")
    return n


def none_default(ctx):
    n = none_findings(ctx, "R-C20-none-default", lambda f: f.short not in BANK_CTORS)
    ctx.floor("R-C20-none-default", n, 20)


def run(ctx):
    prog = ctx.prog
    ctx.rule(none_default)
    ctx.rule(circshift)
    ctx.rule(windows)
    ctx.rule(integer_powers)
    ctx.rule(gamma)
    ctx.rule(gauss)
    ctx.rule(angular)


# ------------------------------------------------------------------- circshift
def circshift(ctx, R="R-C20-circshift-copy"):
    prog = ctx.prog
    f = prog.func("util.circshift_fourier")
    ctx.need(f.params[:5] == ["filt", "shift", "start_idx", "dft_size", "copy"], R, "signature of circshift_fourier changed")
    eff = Effects(prog, flag="copy", disjunctive=True)
    ws, _ = eff.writes_to(f, "filt")
    ctx.check(all(True not in w.flags for w in ws), R, f, ws[0].stmt if ws else f.node,
              "the input spectrum is multiplied in place only when copy is False",
              "with copy=True the input array can still be modified in place (%s)" % ", ".join(sorted({w.how for w in ws if True in w.flags})))
    # in-place branch also requires complex128 input
    pm = astq.parents(f)
    from .. import scenario as SC
    evg = SymEval(prog, f).run()
    for w in ws:
        guards = [astq.text(a.test) for a in astq.ancestors(pm, w.stmt) if isinstance(a, ast.If)]
        # scenario: copy is False and the input is NOT complex128 - the statement must be unreachable
        try:
            orig = [n_ for n_ in f.body_nodes() if getattr(n_, "lineno", -1) == getattr(w.stmt, "lineno", -2) and type(n_) is type(w.stmt)]
            g = evg.guard_of(orig[0] if orig else w.stmt)
        except Exception:
            g = None
        if g is None:
            ctx.error(R, "cannot decide under which condition the in-place product runs (guards: %s)" % guards)
            continue

        def fn(x):
            if x.op == "sym" and x.args[0] == "copy":
                return S.FALSE
            if x.op == "cmp" and x.args[0] in ("==", "!=") and {S.show(x.args[1]), S.show(x.args[2])} & {"filt.dtype"} and \
                    {S.show(x.args[1]), S.show(x.args[2])} & {"numpy.complex128", "np.complex128"}:
                return S.lift(x.args[0] == "!=")
            return None
        gs = SC.transform(g, fn)
        if not gs.is_const:
            ctx.error(R, "cannot decide under which condition the in-place product runs: %s" % S.show(gs)[:120])
            continue
        ctx.check(not S.truthy(gs), R, f, w.stmt, "the in-place product is reached only for a complex128 input (no lossy cast into the caller's array)",
                  "in-place product is not guarded by the dtype test (guards: %s)" % guards)
    D = S.sym("D")
    spec_ramp = None
    vals = {}
    for copy in (True, False):
        for given in (True, False):
            seed = {"copy": copy}
            ev = SymEval(prog, f, seed=seed).run()
            ctx.need(ev.returns, R, "circshift_fourier has no return")
            for g, v, node in ev.returns:
                vals.setdefault(copy, []).append((g, v, node))
    # both copy settings return the same expression on every path
    n = 0
    bykey = {}
    for copy, lst in vals.items():
        for g, v, node in lst:
            for tests, leaf in cc.strip_cond(v):
                key = tuple(sorted((l, S.show(t)) for l, t in tests if "dtype" not in S.show(t)))
                bykey.setdefault(key, []).append((copy, leaf, node))
                n += 1
    ref = None
    for key, lst in bykey.items():
        ref = lst[0][1]
        for copy, leaf, node in lst[1:]:
            r = S.compare(_npexp(leaf), _npexp(ref), domain={})
            ctx.check(r["verdict"] == "equal", R, f, node, "copy=True and copy=False yield the same shifted spectrum",
                      "the in-place and copying paths disagree: %s vs %s" % (S.show(leaf)[:120], S.show(ref)[:120]))
    # the expression itself: filt * exp(-2j*pi*(shift % D)/D * (arange(start, start+len(filt)) % D)), D defaulted
    evs = SymEval(prog, f, seed={"copy": True})
    evs.env = {k: S.sym(k) for k in f.params}
    dflt = evs.expr(ast.parse("(len(filt) + start_idx) if dft_size is None else dft_size", mode="eval").body)
    evs.env["D"] = dflt
    want = evs.expr(ast.parse("filt * np.exp(-2j * np.pi * (shift % D) / D * (np.arange(start_idx, start_idx + len(filt)) % D))", mode="eval").body)
    want = S.subst(want, {S.sym("np.exp"): S.sym("np.exp")})
    ok = False
    if ref is not None:
        for tests, leaf in cc.strip_cond(S.subst(want, {})):
            pass
        # compare alternative by alternative on the `dft_size is None` test
        alts_w = {tuple((l, S.show(t)) for l, t in tests): leaf for tests, leaf in cc.strip_cond(want)}
        ev = SymEval(prog, f, seed={"copy": True}).run()
        got = ev.returns[0][1]
        alts_g = {tuple((l, S.show(t)) for l, t in tests): leaf for tests, leaf in cc.strip_cond(got)}
        ok = set(alts_w) == set(alts_g) and all(S.compare(_npexp(alts_g[k]), _npexp(alts_w[k]), domain={})["verdict"] == "equal" for k in alts_w)
        if not ok:
            detail = "; ".join("%s: %s" % (k, S.show(v)[:140]) for k, v in alts_g.items())
        else:
            detail = ""
    ctx.check(ok, R, f, f.node, "the result is filt * exp(-2 pi i (shift mod D)/D ((start + j) mod D)) with D = len(filt)+start_idx by default",
              "circshift_fourier computes %s" % detail)
    ctx.floor(R, n, 2)


def _npexp(e):
    m = {}
    for x in S.walk(e):
        if cc.is_call(x, "np.exp"):
            m[x] = S.call("exp", *x.args[1:])
    return S.subst(e, m) if m else e


# --------------------------------------------------------------------- windows
CACHE_DECOS = ("lru_cache", "functools.cache", "cache", "cached_property", "memoize", "memoise")


def closure_cache_decorators(prog, f):
    """decorators of f that are package functions keeping a container in a closure and storing into it from the wrapper they
    return (a hand-written memo): [(decorator text, container name)]"""
    out = []
    for d in getattr(f.node, "decorator_list", []):
        head = d.func if isinstance(d, ast.Call) else d
        try:
            t = prog.resolve(f.module, head, f)
        except Exception:
            t = None
        node = getattr(t, "node", None)
        if not isinstance(node, (ast.FunctionDef, ast.AsyncFunctionDef)):
            continue
        containers = set()
        for st in node.body:
            if isinstance(st, ast.Assign) and isinstance(st.value, (ast.Dict, ast.List, ast.Set)) or (
                    isinstance(st, ast.Assign) and isinstance(st.value, ast.Call) and isinstance(st.value.func, ast.Name)
                    and st.value.func.id in ("dict", "list", "set", "OrderedDict", "defaultdict")):
                containers.update(x.id for t_ in st.targets for x in ast.walk(t_) if isinstance(x, ast.Name))
        for inner in [x for x in ast.walk(node) if isinstance(x, (ast.FunctionDef, ast.Lambda)) and x is not node]:
            for x in ast.walk(inner):
                tgt = None
                if isinstance(x, ast.Subscript) and isinstance(x.ctx, ast.Store) and isinstance(x.value, ast.Name):
                    tgt = x.value.id
                elif isinstance(x, ast.Call) and isinstance(x.func, ast.Attribute) and x.func.attr in ("setdefault", "update", "append", "add") \
                        and isinstance(x.func.value, ast.Name):
                    tgt = x.func.value.id
                if tgt in containers:
                    out.append((astq.text(d), tgt))
                    break
    return out


def fresh_and_pure(ctx, R, f, what):
    """The function returns storage created by the call and keeps no memo."""
    prog = ctx.prog
    decos = [d for d in f.decorators if any(c in d for c in CACHE_DECOS)] + ["%s (keeps `%s` in a closure)" % dc for dc in closure_cache_decorators(prog, f)]
    ctx.check(not decos, R, f, f.node, "%s is not memoised" % what,
              "%s is wrapped by %s: every caller receives the same array object, so an in-place modification by one caller "
              "corrupts what later callers get" % (what, decos), robust=True)
    # callees in the package reachable in one hop
    for c in astq.func_calls(f):
        t = prog.resolve(f.module, c.func, f)
        if hasattr(t, "decorators"):
            decos = [d for d in t.decorators if any(k in d for k in CACHE_DECOS)]
            ctx.check(not decos, R, f, c, "%s does not obtain its result from a memoised helper" % what,
                      "%s returns the result of %s, which is memoised (%s): callers share one array object" % (what, t.short, decos), robust=True)
    # no writes to instance or module state
    if f.cls is not None and f.params:
        s = f.params[0]
        for n in f.body_nodes():
            tg = []
            if isinstance(n, ast.Assign):
                for t in n.targets:
                    tg.extend(astq.flatten_targets(t))
            elif isinstance(n, ast.AugAssign):
                tg = [n.target]
            for t in tg:
                b = astq.base_name(t)
                if b == s:
                    ctx.bad(R, f, n, "%s writes instance state (%s); the response must be a function of the constructor's parameters only, "
                            "and cached arrays are shared between callers" % (what, astq.text(t)), "%s keeps no state" % what, robust=True)
            if isinstance(n, (ast.Global, ast.Nonlocal)):
                ctx.bad(R, f, n, "%s writes module state" % what, "%s keeps no state" % what, robust=True)
            if isinstance(n, ast.Call) and isinstance(n.func, ast.Attribute) and n.func.attr in ("setdefault", "update", "append", "__setitem__") \
                    and astq.base_name(n.func.value) == s:
                ctx.bad(R, f, n, "%s writes instance state (%s)" % (what, astq.text(n)[:60]), "%s keeps no state" % what, robust=True)
    eff = Effects(prog)
    res = eff._analyse(f, tracked=None)
    shared = [r for r in res["returns"] if r[0] in ("self", "param")]
    ctx.check(not shared, R, f, f.node, "%s returns a fresh array" % what,
              "%s may return storage shared with %s" % (what, sorted(shared)), robust=True)


def no_shared_state(ctx, R, f, what, allow_self=False):
    """The function writes nothing that outlives the call other than (optionally) its own instance: no store through a
    class-level or module-level name, no memoised helper one call away.  Results that depend on such state depend on
    what was computed before (another rate, another configuration) - not on the arguments alone."""
    prog = ctx.prog
    decos = [d for d in f.decorators if any(c in d for c in CACHE_DECOS)] + ["%s (keeps `%s` in a closure)" % dc for dc in closure_cache_decorators(prog, f)]
    ctx.check(not decos, R, f, f.node, "%s is not memoised" % what, "%s is wrapped by %s: its result is computed once per argument tuple and shared afterwards" % (what, decos), robust=True)
    for c in astq.func_calls(f):
        t = prog.resolve(f.module, c.func, f)
        if hasattr(t, "decorators"):
            decos = [d for d in t.decorators if any(k in d for k in CACHE_DECOS)]
            ctx.check(not decos, R, f, c, "%s does not go through a memoised helper" % what,
                      "%s calls %s, which is memoised (%s): a result computed for an earlier call with the same key - but possibly another "
                      "sampling rate / default / configuration not in the key - is reused" % (what, getattr(t, "short", "?"), decos), robust=True)
    # one hop: a package helper that keeps a hand-written memo in a module-level container
    from ..alpha import locals_of, params_of
    seen_callees = set()
    for c in astq.func_calls(f):
        t = prog.resolve(f.module, c.func, f)
        if not (hasattr(t, "body_nodes") and getattr(t, "cls", None) is None and getattr(t, "parent", None) is None) or t is f or id(t) in seen_callees:
            continue
        seen_callees.add(id(t))
        if not str(getattr(t.module, "name", "")).startswith("pydrobert.speech"):
            continue
        tloc = locals_of(t.node) | params_of(t.node)
        massigns = getattr(t.module, "assigns", {})
        for n in t.body_nodes():
            tgt = None
            if isinstance(n, ast.Assign):
                for tt in n.targets:
                    if isinstance(tt, ast.Subscript) and isinstance(tt.value, ast.Name):
                        tgt = tt.value.id
            elif isinstance(n, ast.Call) and isinstance(n.func, ast.Attribute) and n.func.attr in ("setdefault", "update", "append", "add", "extend", "insert", "__setitem__") \
                    and isinstance(n.func.value, ast.Name):
                tgt = n.func.value.id
            if tgt is not None and tgt not in tloc and tgt in massigns and any(isinstance(v_, (ast.Dict, ast.List, ast.Set)) or (
                    isinstance(v_, ast.Call) and isinstance(v_.func, ast.Name) and v_.func.id in ("dict", "list", "set", "OrderedDict", "defaultdict", "WeakKeyDictionary", "WeakValueDictionary"))
                    or (isinstance(v_, ast.Call) and isinstance(v_.func, ast.Attribute) and v_.func.attr in ("WeakKeyDictionary", "WeakValueDictionary", "OrderedDict", "defaultdict"))
                    for v_ in massigns[tgt]):
                ctx.bad(R, f, c, "%s calls %s, which stores into the module-level container `%s`: what it returns depends on what earlier calls (other instances, other "
                        "configurations, an older version of the same file) left there, and the stored objects are shared between callers" % (what, t.short, tgt),
                        "%s keeps no state between calls" % what, robust=True)
                break
    loc = locals_of(f.node) | params_of(f.node)
    # functions defined inside f are its own objects (attributes set on them live as long as the call)
    loc |= {x.name for x in ast.walk(f.node) if isinstance(x, (ast.FunctionDef, ast.AsyncFunctionDef, ast.ClassDef)) and x is not f.node}
    selfn = f.params[0] if (f.cls is not None and f.params and not f.is_staticmethod) else None
    for n in f.body_nodes():
        tg = []
        if isinstance(n, ast.Assign):
            for t in n.targets:
                tg.extend(astq.flatten_targets(t))
        elif isinstance(n, ast.AugAssign):
            tg = [n.target]
        elif isinstance(n, (ast.Global, ast.Nonlocal)):
            ctx.bad(R, f, n, "%s rebinds module state (%s)" % (what, ", ".join(n.names)), "%s keeps no state between calls" % what, robust=True)
        recv = None
        if isinstance(n, ast.Call) and isinstance(n.func, ast.Attribute) and n.func.attr in ("setdefault", "update", "append", "add", "extend", "insert", "pop", "clear", "__setitem__"):
            recv = n.func.value
        for t in tg + ([recv] if recv is not None else []):
            if isinstance(t, ast.Name):
                # a mutating call on a bare name: local containers are fine, a module-level one is shared state
                if t is recv and t.id not in loc and t.id not in ("np", "numpy", "math", "warnings", "logging") and prog.modules.get(f.module.name) is not None \
                        and t.id in getattr(f.module, "assigns", {}):
                    ctx.bad(R, f, n, "%s updates %s, a module-level object shared by every instance and call: values cached there for one configuration are "
                            "served to another" % (what, t.id), "%s keeps no state between calls" % what, robust=True)
                continue
            b = astq.base_name(t)
            if b is None:
                continue
            if b == selfn and allow_self and f.cls is not None and isinstance(t, ast.Subscript) or (
                    b == selfn and allow_self and f.cls is not None and t is recv):
                # self.X[...] = v / self.X.update(...) where X is a container created in the class body (never re-bound per instance):
                # one object shared by every instance of the class
                head = t
                while isinstance(head, ast.Subscript):
                    head = head.value
                if isinstance(head, ast.Attribute) and isinstance(head.value, ast.Name) and head.value.id == selfn:
                    attr = head.attr
                    owner, cval = prog.find_class_attr(f.cls, attr)
                    is_container = isinstance(cval, (ast.Dict, ast.List, ast.Set)) or (isinstance(cval, ast.Call) and isinstance(cval.func, ast.Name)
                                                                                        and cval.func.id in ("dict", "list", "set", "OrderedDict", "defaultdict"))
                    rebound = any(isinstance(n2, ast.Assign) and any(astq.is_self_attr(t2, m2.params[0], attr) for t2 in n2.targets)
                                  for k2 in prog.mro(f.cls) for m2 in k2.methods.values() if m2.params for n2 in m2.body_nodes())
                    if owner is not None and is_container and not rebound:
                        ctx.bad(R, f, n, "%s stores into self.%s, a container created in the body of class %s and never re-bound per instance: it is one object "
                                "shared by all instances, so what one computer put there (keyed by less than everything the value depends on) is served to another"
                                % (what, attr, owner.name), "%s keeps no state between calls" % what, robust=True)
                continue
            if b == selfn:
                if not allow_self:
                    ctx.bad(R, f, n, "%s writes instance state (%s): what it returns afterwards depends on earlier calls" % (what, astq.text(t)[:60]), "%s keeps no state between calls" % what, robust=True)
                continue
            if b not in loc:
                ctx.bad(R, f, n, "%s writes %s, a class- or module-level object shared by every instance and call: values cached there for one "
                        "configuration (sampling rate, threshold, axis) are served to another" % (what, astq.text(t)[:60]), "%s keeps no state between calls" % what, robust=True)


def windows(ctx, R="R-C20-windows"):
    prog = ctx.prog
    fm = prog.module("filters")
    n = 0
    for cname, (gen, a0) in spec.WINDOWS.items():
        c = fm.classes.get(cname)
        ctx.need(c is not None, R, "filters.%s vanished" % cname)
        f = prog.find_method(c, "get_impulse_response")
        ctx.need(f is not None and not f.is_abstract, R, "%s has no concrete get_impulse_response" % cname)
        # sharing first: a window object handed out twice is a definite defect whatever formula produced it
        fresh_and_pure(ctx, R, f, "%s.get_impulse_response" % cname)
        if ctx.findings and any(fd.rule == R and cname in fd.message for fd in ctx.findings):
            n += 1
            continue
        helpers = [t.qualname for t in (prog.resolve(f.module, c_.func, f) for c_ in astq.func_calls(f)) if hasattr(t, "qualname") and getattr(t, "cls", 1) is None]
        ev = SymEval(prog, f, self_class=c, inline=helpers).run()
        ctx.need(len(ev.returns) == 1, R, "%s.get_impulse_response has several returns" % cname)
        v = ev.returns[0][1]
        w = S.sym(f.params[1])
        short = "np." + gen.split(".", 1)[1]
        want = S.truediv(S.call(short, w), S.mul(S.lift(a0), S.emax(S.ONE, S.sub(w, S.ONE))))
        r = S.compare(v, want, domain={})
        n += 1
        ctx.check(r["verdict"] == "equal", R, f, ev.returns[0][2],
                  "%s is %s(width) / (%s * max(1, width - 1))" % (cname, short, a0),
                  "%s returns %s; the documented window is %s(width) divided by its continuous-limit area %s*max(1, width-1)"
                  % (cname, S.show(v), short, a0))
    ctx.floor(R, n, 4)


# ----------------------------------------------------------------------- gamma
def integer_powers(ctx, R="R-C20-gamma"):
    """t ** (order - 1) on an integer-typed NumPy array is computed in int64 and wraps silently once the result passes 2**63
    (width 520 at order 8, width 130 at order 10): the time axis of the gamma window has to be floating point.  The dtype is
    inferred (NEP 50 promotion; np.arange takes the type of its arguments, the width is an int)."""
    from ..dt import DT
    prog = ctx.prog
    f = prog.own_method(prog.cls("filters.GammaWindow"), "get_impulse_response")
    dt = DT(prog, f)
    n = 0
    INTS = {"i8", "i16", "i32", "i64", "u8", "u16", "u32", "u64"}
    for x in f.body_nodes():
        if isinstance(x, ast.BinOp) and isinstance(x.op, ast.Pow):
            if isinstance(x.right, ast.Constant) and isinstance(x.right.value, int) and 0 <= x.right.value <= 3:
                continue
            n += 1
            tags = dt.of(x.left)
            if tags and tags <= INTS:
                ctx.bad(R, f, x, "`%s` raises an array of dtype %s to a power the caller chooses: the result is computed in 64-bit integers and wraps around without "
                        "warning once it passes 2**63 (order 8 from a width of about 520, order 10 from about 130): samples come out negative or garbage"
                        % (astq.text(x)[:50], "/".join(sorted(tags))), "the powers of the time axis are computed in floating point", robust=True)
            elif tags & INTS or "unknown" in tags:
                ctx.error(R, "cannot decide the dtype `%s` is computed in: %s" % (astq.text(x)[:50], sorted(tags)))
            else:
                ctx.ok(R, f.loc(x), "the powers of the time axis are computed in floating point", "base dtype %s" % sorted(tags))
    ctx.floor(R + "/powers", n, 1)


def gamma_by_evaluation(ctx, f, R="R-C20-gamma"):
    """The Gamma window, sample by sample: for widths 0..6, orders 1, 2, 4 and peaks 3/4, 1/2, 1/4 the routine is evaluated by the
    checker's interpreter over exact symbolic values (pdsa/varr.py) and every returned sample i compared with the documented
    density at t = width - 1 - i: t^(order-1) exp(-alpha t) alpha^order / (order-1)! with alpha = (order-1) / (width - peak*width)
    for order > 1 and 5 / width for order 1 (0^0 = 1: the order-1 window ends on its maximum alpha; for order > 1 the last sample
    is 0); width <= 0 gives an empty window and width 1 gives [1].  However the routine lays out its time axis (descending,
    ascending and reversed at the end), slices it, updates it in place - only the values count.  True when decided."""
    from .. import varr as V
    what = "every sample of the Gamma window equals t^(order-1) exp(-alpha t) alpha^order / (order-1)! at t = width - 1 - i"
    wname = f.params[1]
    n = 0
    try:
        for W in range(0, 7):
            for order in (1, 2, 4):
                for peak in (Fraction(3, 4), Fraction(1, 2), Fraction(1, 4)):
                    n += 1
                    env = {wname: W, "self.order": order, "self.peak": peak, "self._order": order, "self._peak": peak}
                    try:
                        got = V.run_function(f.node, env)
                    except V.ShapeError as e:
                        ctx.bad(R, f, f.node, "for width %d, order %d, peak %s evaluating the window fails: %s" % (W, order, peak, e), what, robust=True)
                        return True
                    if not isinstance(got, V.VArr):
                        raise V.Unsupported("the window returns %s" % type(got).__name__)
                    vals = got.values()
                    if W <= 0:
                        want = []
                    elif W == 1:
                        want = [S.ONE]
                    else:
                        alpha = Fraction(order - 1) / (W - peak * W) if order > 1 else Fraction(5, W)
                        lnc = S.sub(S.mul(S.lift(order), S.call("log", S.lift(alpha))), S.call("log", S.lift(math.factorial(order - 1))))
                        want = []
                        for i in range(W):
                            t = W - 1 - i
                            if t == 0 and order > 1:
                                want.append(S.ZERO)
                            else:
                                want.append(S.mul(S.lift(t ** (order - 1)), S.call("exp", S.add(S.lift(-alpha * t), lnc))))
                    if len(vals) != len(want):
                        ctx.bad(R, f, f.node, "for width %d (order %d, peak %s) the window has %d sample(s), expected %d" % (W, order, peak, len(vals), len(want)), what, robust=True)
                        return True
                    for i, (g, w) in enumerate(zip(vals, want)):
                        r = S.compare(g, w, domain={}, expand_logs=True)
                        if r["verdict"] == "differ":
                            ctx.bad(R, f, f.node, "for width %d, order %d, peak %s sample %d (t = %d) is %s ; the documented density gives %s"
                                    % (W, order, peak, i, W - 1 - i, S.show(g)[:90], S.show(w)[:90]), what, robust=True)
                            return True
                        if r["verdict"] != "equal":
                            raise V.Unsupported("sample %d cannot be compared: %s" % (i, r.get("reason")))
    except V.Unsupported:
        return False      # outside the evaluator's vocabulary: the closed-form clauses below take over
    ctx.ok(R, f.loc(), what, "%d combinations of width (0..6), order and peak evaluated" % n)
    return True


def gamma(ctx, R="R-C20-gamma"):
    prog = ctx.prog
    c = prog.module("filters").classes.get("GammaWindow")
    ctx.need(c is not None, R, "filters.GammaWindow vanished")
    f = prog.own_method(c, "get_impulse_response")
    fresh_and_pure(ctx, R, f, "GammaWindow.get_impulse_response")
    if gamma_by_evaluation(ctx, f, R):
        return
    ev = SymEval(prog, f, rename={"self.order": "n", "self.peak": "peak"}, inline_props=False).run()
    width = S.sym(f.params[1])
    rs = ev.returns
    ctx.need(len(rs) == 3, R, "GammaWindow.get_impulse_response no longer has the three cases width<=0, width==1, general")
    g0, v0, n0 = rs[0]
    ok = g0 == S.cmp("<=", width, S.ZERO) and cc.is_call(v0, "np.array") and v0.args[1] == S.call("list")
    ctx.check(ok, R, f, n0, "width <= 0 gives an empty window", "first case is %s -> %s" % (S.show(g0), S.show(v0)))
    g1, v1, n1 = rs[1]
    ok = "(width == 1)" in S.show(g1) and cc.is_call(v1, "np.array") and v1.args[1] == S.call("list", S.ONE)
    ctx.check(ok, R, f, n1, "width == 1 gives [1]", "second case is %s -> %s" % (S.show(g1), S.show(v1)))
    env = ev.env
    n_, peak = S.sym("n"), S.sym("peak")
    alpha = env.get("alpha")
    ctx.need(alpha is not None, R, "alpha not found")
    got = None
    for tests, leaf in cc.strip_cond(alpha):
        if any(l == "T" and S.show(t) in ("(n > 1)", "(1 < n)") for l, t in tests):
            got = leaf
    want = S.truediv(S.sub(n_, S.ONE), S.sub(width, S.mul(peak, width)))
    ctx.check(got is not None and S.compare(got, want, domain={})["verdict"] == "equal", R, f, f.node,
              "for order > 1, alpha = (order-1)/(width - peak*width): the maximum falls at peak*width",
              "alpha for order > 1 is %s, expected (order-1)/(width - peak*width)" % (S.show(got) if got is not None else None))
    lnc = env.get("ln_c")
    A = S.sym("ALPHA")
    lnc_n = S.subst(lnc, {alpha: A}) if lnc is not None else None
    want = S.sub(S.mul(n_, S.call("log", A)), S.call("log", S.call("factorial", S.sub(n_, S.ONE))))
    r = S.compare(lnc_n, want, domain={"n": [Fraction(1), Fraction(2), Fraction(4)], "ALPHA": [Fraction(1, 3), Fraction(2)]}, expand_logs=True) if lnc_n is not None else {"verdict": "differ"}
    if r["verdict"] == "inconclusive":
        raise AnalysisError("%s: ln c: %s" % (R, r.get("reason")))
    ctx.check(r["verdict"] == "equal", R, f, f.node,
              "ln c = order * ln alpha - ln (order-1)!", "ln c is %s" % (S.show(lnc_n)[:120] if lnc_n is not None else None))
    sup = [n for n in f.body_nodes() if isinstance(n, ast.Assign) and astq.is_name(n.targets[0], "ret") and isinstance(n.value, ast.Call)]
    ok = len(sup) == 1 and astq.in_texts(sup[0].value, ("np.arange(width-1,-1,-1,dtype=float)", "np.arange(width-1,-1,-1,dtype=np.float64)", "np.arange(width-1,-1,-1,dtype=numpy.float64)",
                                                        "np.arange(width-1,-1,-1,dtype='float64')"))
    ctx.check(ok, R, f, sup[0] if sup else MISSING(f.node), "the support is time-reversed: arange(width-1, -1, -1)",
              "support is %s" % (astq.text(sup[0].value) if sup else None))
    st = [n for n in f.body_nodes() if isinstance(n, ast.Assign) and isinstance(n.targets[0], ast.Subscript) and astq.is_name(n.targets[0].value, "ret")]
    ctx.need(len(st) == 1, R, "the store of the density into the support not found")
    offs = env.get("offs")
    ctx.need(offs is not None, R, "offs not found")
    off_leaf = {}
    for tests, leaf in cc.strip_cond(offs):
        for l, t in tests:
            if S.show(t) in ("(n > 1)", "(1 < n)"):
                off_leaf[l == "T"] = leaf
    ctx.need(set(off_leaf) == {True, False}, R, "offs is not decided by order > 1")
    ctx.check(S.compare(off_leaf[True], S.sub(width, S.ONE), domain={})["verdict"] == "equal", R, f, f.node,
              "for order > 1 the last sample (t = 0) stays 0", "offs for order > 1 is %s, not width - 1" % S.show(off_leaf[True]))
    ctx.check(S.compare(off_leaf[False], width, domain={})["verdict"] == "equal", R, f, f.node,
              "for order 1 the density is evaluated on the whole support, t = 0 included (its maximum)", "offs for order 1 is %s, not width" % S.show(off_leaf[False]))
    # the density itself, with T the support samples being overwritten
    tgt = st[0].targets[0]
    V = ev.eval_at(st[0], st[0].value)
    Told = ev.eval_at(st[0], tgt)
    T, LC = S.sym("T"), S.sym("LNC")
    Vn = S.subst(V, {Told: T})
    Vn = S.subst(Vn, {lnc: LC}) if lnc is not None else Vn
    Vn = S.subst(Vn, {alpha: A})
    ctx.need("T" in S.symbols(Vn), R, "the density is not computed from the support samples it overwrites")
    want_d = S.mul(S.power(T, S.sub(n_, S.ONE)), S.call("exp", S.add(S.neg(S.mul(A, T)), LC)))
    dom = {"T": [Fraction(1), Fraction(3)], "n": [Fraction(1), Fraction(2), Fraction(3)], "ALPHA": [Fraction(1, 3), Fraction(2)], "LNC": [Fraction(-1), Fraction(1, 2)]}
    r = S.compare(Vn, want_d, domain=dom)
    if r["verdict"] != "equal":
        # the same density written in the log domain?
        r2 = S.compare(S.call("log", Vn), S.call("log", want_d), domain=dom, expand_logs=True)
        if r2["verdict"] == "equal":
            logs_of_t = [x for x in S.walk(Vn) if x.op == "call" and x.args[0] == "log" and "T" in S.symbols(x)]
            ctx.check(not logs_of_t, R, f, st[0], "the density needs no logarithm of the support samples",
                      "the density takes %s of the support samples; for order 1 the support includes t = 0 (offs = width), where "
                      "(order-1) * log(0) = 0 * -inf = NaN: the window's last and largest sample is NaN instead of alpha" % S.show(logs_of_t[0]) if logs_of_t else "")
        elif r2["verdict"] == "differ" or r["verdict"] == "differ":
            w = r if r["verdict"] == "differ" else r2
            ctx.bad(R, f, st[0], "density is %s, not t^(order-1) exp(-alpha t + ln c) (e.g. at %s)" % (S.show(Vn)[:120], w.get("witness")),
                    "samples are t^(order-1) exp(-alpha t + ln c)")
        else:
            raise AnalysisError("%s: density: %s" % (R, r.get("reason")))
    else:
        ctx.ok(R, f.loc(st[0]), "samples are t^(order-1) exp(-alpha t + ln c)")


# ----------------------------------------------------------------------- gauss
def gauss(ctx, R="R-C20-gauss"):
    prog = ctx.prog
    f = prog.func("util._gauss_quant_odeh_evans")
    p, mu, std = f.params[:3]
    ev = SymEval(prog, f).run()
    ctx.need(len(ev.returns) == 1, R, "_gauss_quant_odeh_evans has several returns")
    v = ev.returns[0][1]
    P = S.sym(p)
    r_want = S.cond(S.cmp(">", P, S.lift(Fraction(1, 2))), S.sub(S.ONE, P), P)
    # affine in mu, std
    ok_aff = v.op == "add" and v.args[1] == S.sym(mu) and v.args[0].op == "mul" and v.args[0].args[1] == S.sym(std)
    ctx.check(ok_aff, R, f, ev.returns[0][2], "the result is z * std + mu (affine in mu and std)", "return value is %s" % S.show(v)[:100])
    if not ok_aff:
        return
    z = v.args[0].args[0]
    # absolute-resolution rule: a tail probability formed as c + k*erf(.) is a multiple of 2**-53 and cannot resolve
    # min(p, 1-p) between 1e-20 and 1e-16, where the property still demands 1e-6 accuracy (erfc has to be used)
    for x in S.walk(z):
        if x.op == "add" and any(S.is_num(a) and a.value != 0 for a in x.args):
            for a in x.args:
                while a.op == "neg":
                    a = a.args[0]
                terms = a.args if a.op == "mul" else (a,)
                terms = [t.args[0] if t.op == "neg" else t for t in terms]
                if any(t.op == "call" and isinstance(t.args[0], str) and t.args[0].split(".")[-1] == "erf" for t in terms):
                    ctx.bad(R, f, f.node, "a probability is formed as %s: in float64 this is a multiple of 2**-53 (1.1e-16), so tail probabilities "
                            "between 1e-20 and 1e-16 are not resolved and the quantile there is off by far more than 1e-6 standard deviations "
                            "(catastrophic cancellation; erfc would be needed)" % S.show(x)[:80], "no cancellation in the tails")
                    return
    # z = cond(p < 1/2, -z0, z0)
    ok_sign = z.op == "cond" and z.args[0] == S.cmp("<", P, S.lift(Fraction(1, 2))) and z.args[1] == S.neg(z.args[2])
    ctx.check(ok_sign, R, f, f.node, "the sign is restored for p < 1/2", "sign handling is %s" % S.show(z)[:100])
    if not ok_sign:
        return
    z0 = z.args[2]
    # z0 = cond(r < tail, 10, y - P(y)/Q(y))
    ok_tail = z0.op == "cond" and z0.args[0].op == "cmp" and z0.args[0].args[0] == "<"
    ctx.check(ok_tail, R, f, f.node, "a tail threshold selects the saturated value", "tail handling is %s" % S.show(z0)[:100])
    if not ok_tail:
        return
    thr = z0.args[0].args[2]
    rr = z0.args[0].args[1]
    ctx.check(rr == r_want, R, f, f.node, "the tail is folded: r = 1 - p if p > 1/2 else p", "folded probability is %s" % S.show(rr))
    ctx.check(S.is_num(thr) and thr.value == Fraction(spec.ODEH_EVANS_TAIL), R, f, f.node,
              "the saturation threshold is %s (accurate wherever min(p, 1-p) >= 1e-20)" % spec.ODEH_EVANS_TAIL,
              "results saturate below min(p,1-p) = %s instead of %s; probabilities in between no longer get their quantile"
              % (S.show(thr), spec.ODEH_EVANS_TAIL))
    body = z0.args[2]
    Y = S.power(S.mul(S.lift(-2), S.call("log", rr)), S.lift(Fraction(1, 2)))
    ysym = S.sym("y")
    body_y = S.subst(body, {Y: ysym, S.call("sqrt", S.mul(S.lift(-2), S.call("log", rr))): ysym})

    def poly(cs):
        e = S.ZERO
        for i, c in enumerate(cs):
            e = S.add(e, S.mul(S.lift(Fraction(c)), S.power(ysym, S.lift(i))))
        return e

    want = S.sub(ysym, S.truediv(poly(spec.ODEH_EVANS_P), poly(spec.ODEH_EVANS_Q)))
    res = S.compare(body_y, want, domain={"y": [Fraction(v) for v in (1, 2, 3)]})
    if res["verdict"] == "equal":
        ctx.ok(R, f.loc(), "z = y - P(y)/Q(y) with the ten published Odeh-Evans coefficients, y = sqrt(-2 ln r)")
    elif res["verdict"] == "differ":
        ctx.bad(R, f, f.node, "the rational approximation differs from Odeh & Evans (1974): at %s it gives %s instead of %s"
                % (res["witness"], res["values"][0], res["values"][1]), "Odeh-Evans coefficients")
    else:
        raise AnalysisError("%s: %s" % (R, res["reason"]))
    # the scipy variant
    um = prog.module("util")
    gq = [n for n in ast.walk(um.tree) if isinstance(n, ast.FunctionDef) and n.name == "gauss_quant"]
    for d in gq:
        r = [x for x in ast.walk(d) if isinstance(x, ast.Return)]
        ok = len(r) == 1 and astq.eq_text(r[0].value, "norm.ppf(p)*std+mu")
        if ok:
            ctx.ok(R, "%s:%d" % (um.rel, d.lineno), "the scipy variant is norm.ppf(p) * std + mu")
        else:
            ctx.bad(R, "util.gauss_quant", astq.text(r[0].value) if r else "def gauss_quant", "the scipy variant of gauss_quant is not norm.ppf(p)*std + mu", module=um)
    fb = um.assigns.get("gauss_quant", [])
    ctx.check(any(astq.is_name(v_, "_gauss_quant_odeh_evans") for v_ in fb), R, f, f.node, "without scipy gauss_quant is the Odeh-Evans function",
              "fallback gauss_quant is %s" % [astq.text(v_) for v_ in fb])


# --------------------------------------------------------------------- angular
def angular(ctx, R="R-C20-angular"):
    prog = ctx.prog
    h2a, a2h = prog.func("util.hertz_to_angular"), prog.func("util.angular_to_hertz")
    x, r = S.sym("x"), S.sym("rate")
    for outer, inner, name in ((h2a, a2h, "hertz_to_angular(angular_to_hertz(x))"), (a2h, h2a, "angular_to_hertz(hertz_to_angular(x))")):
        ei = SymEval(prog, inner, args={inner.params[0]: x, inner.params[1]: r}).run()
        ctx.need(len(ei.returns) == 1, R, "%s has several returns" % inner.short)
        eo = SymEval(prog, outer, args={outer.params[0]: ei.returns[0][1], outer.params[1]: r}).run()
        v = eo.returns[0][1]
        res = S.compare(v, x, domain={"x": [Fraction(3), Fraction(1, 7)], "rate": [Fraction(8000), Fraction(3)]})
        ctx.check(res["verdict"] == "equal", R, outer, eo.returns[0][2], "%s == x as rational functions (rate != 0)" % name,
                  "%s is %s, not x%s" % (name, S.canon(v), (" (e.g. at %s)" % res.get("witness")) if res["verdict"] == "differ" else ""))
    e = SymEval(prog, h2a, args={h2a.params[0]: x, h2a.params[1]: r}).run().returns[0][1]
    res = S.compare(e, S.truediv(S.mul(S.mul(x, S.lift(2)), S.PI), r), domain={})
    ctx.check(res["verdict"] == "equal", R, h2a, h2a.node, "hertz_to_angular is 2 pi hertz / rate", "hertz_to_angular is %s" % S.canon(e))
