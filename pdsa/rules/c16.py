"""C16 - Standardize normalises with exactly the statistics it was given."""

import ast
from fractions import Fraction

from .. import astq
from .. import sym as S
from ..cfg import CFG
from ..dt import DT
from ..eff import Effects
from ..report import MISSING
from ..model import AnalysisError
from ..symeval import SymEval
from . import cli_common as cc
from .. import scenario as SC
from .c04 import attr_writes, must_reinit

LEVEL = "other"
TECHNIQUE = ("forward substitution + scenario evaluation: the statistics matrix after accumulate (as a whole and per accumulator) and the "
             "value, dtype and raise conditions of the appliers are compared with the documented closed forms in every scenario; "
             "who-may-write / additive-update rule, blocked-loop coverage, dtype lattice for the increments, derived-state "
             "invalidation rule, effect analysis with the in_place flag")
EXPLANATION = (
    "Decides: every write to the statistics matrix reachable from accumulate is a += onto a matrix created as float64 zeros "
    "and no increment reads the matrix back (so any split or order of the same vectors gives the same sums up to "
    "rounding); vector and tensor accumulators update the same three regions - count [0,-1] by the number of vectors, sums "
    "[0,:-1], sums of squares [1,:-1] - with increments computed in float64; both appliers read count, mean = sums/count, "
    "var = squares/count - mean^2 and apply x*scale - mean*scale with scale = 1/sqrt(var) iff norm_var (zero variances "
    "replaced first); any attribute derived from the statistics is invalidated by every method that writes them; all four "
    "bodies raise ValueError on a dimension mismatch before writing; the result is float64 and the input is written "
    "through only when in_place is true and it already is float64. Does NOT decide numerical values or the mean-0 / "
    "variance-1 outcome of local standardisation.")

REGIONS = {"count": "self._stats[0, -1]", "sums": "self._stats[0, :-1]", "squares": "self._stats[1, :-1]"}


def run(ctx):
    ctx.rule(additive)
    ctx.rule(blocked_loops)
    ctx.rule(acc_values)
    ctx.rule(acc_entry)
    ctx.rule(apply_values)
    ctx.rule(slots)
    ctx.rule(appliers)
    ctx.rule(derived_state)
    ctx.rule(dimcheck)
    ctx.rule(readonly)
    ctx.rule(no_process_state)


def no_process_state(ctx, R="R-C16-derived-state"):
    """the statistics an instance uses are its own: loaded through no memoised reader, kept in no class- or module-level object"""
    from .c17 import no_process_state as nps
    nps(ctx, R)


def _std(prog):
    return prog.cls("post.Standardize")


def additive(ctx, R="R-C16-additive"):
    prog = ctx.prog
    c = _std(prog)
    acc = prog.own_method(c, "accumulate")
    funcs = [acc]
    for call in astq.func_calls(acc):
        if isinstance(call.func, ast.Attribute) and astq.is_name(call.func.value, acc.params[0]):
            m = c.methods.get(call.func.attr)
            if m is not None:
                funcs.append(m)
    ctx.need(len(funcs) >= 3, R, "accumulate no longer dispatches to vector/tensor accumulators")
    n = 0
    for f in funcs:
        for attr, kind, node in attr_writes(f):
            if attr != "_stats":
                continue
            n += 1
            if kind == "full":
                v = node.value
                ok = isinstance(v, ast.Call) and prog.qualify(f.module, v.func, f) == "numpy.zeros" and \
                    astq.kw(v, "dtype") is not None and prog.qualify(f.module, astq.kw(v, "dtype"), f) == "numpy.float64"
                pm = astq.parents(f)
                g = [astq.text(a.test) for a in astq.ancestors(pm, node) if isinstance(a, ast.If)]
                ctx.check(ok and g[:1] == ["self._stats is None"], R, f, node, "the matrix is created as float64 zeros, only when there is none yet",
                          "statistics are (re)assigned by `%s` (guard %s): accumulated statistics would be lost or mis-typed" % (astq.text(node)[:80], g[:1]))
            elif isinstance(node, ast.AugAssign) and isinstance(node.op, ast.Add):
                reads = [x for x in ast.walk(node.value) if astq.is_self_attr(x, f.params[0], "_stats")]
                ctx.check(not reads, R, f, node, "the update is a += whose increment does not read the statistics back",
                          "the increment reads self._stats: accumulation is no longer additive in the data")
            else:
                ctx.bad(R, f, node, "statistics are written by `%s`, which is not an additive (+=) update; splitting or re-ordering the same "
                        "data across accumulate calls would change the result" % astq.text(node)[:80], "statistics are only ever incremented")
    ctx.floor(R, n, 8)
    # dispatch: tensors (ndim > 1) vs vectors; empty input rejected first
    body = [s for s in acc.node.body if not (isinstance(s, ast.Expr) and isinstance(s.value, ast.Constant))]
    ok = isinstance(body[0], ast.If) and len(body[0].body) == 1 and isinstance(body[0].body[0], ast.Raise)
    ctx.check(ok, R, acc, body[0], "an empty array is rejected before anything is accumulated")


def _region(node_target):
    return astq.text(node_target).replace(" ", "")


def slots(ctx, R="R-C16-slots"):
    prog = ctx.prog
    c = _std(prog)
    want_regions = {v.replace(" ", ""): k for k, v in REGIONS.items()}
    for name, arr in (("_accumulate_vector", "vec"), ("_accumulate_tensor", "tensor")):
        f = prog.own_method(c, name)
        arr = f.params[1]
        dt = DT(prog, f, array_params=[arr])
        seen = {}
        for n in f.body_nodes():
            if isinstance(n, ast.AugAssign) and isinstance(n.target, ast.Subscript) and astq.is_self_attr(n.target.value, f.params[0], "_stats"):
                reg = want_regions.get(_region(n.target))
                if reg is None:
                    continue  # decided on values by acc_values
                seen.setdefault(reg, []).append(n)
        for reg in REGIONS:
            ctx.check(len(seen.get(reg, [])) >= 1, R, f, f.node, "%s updates the %s region" % (name, reg), "%s never updates the %s region %s" % (name, reg, REGIONS[reg]),
                      structural=True)
        for reg in ("sums", "squares"):
            for n in seen.get(reg, []):
                tags = dt.of(n.value)
                ctx.check(tags == {"f64"}, R, f, n, "the %s increment is computed in float64" % reg,
                          "the %s increment `%s` is computed with dtype %s, not float64: %s" % (
                              reg, astq.text(n.value)[:70], sorted(tags),
                              "squares of narrow integer inputs wrap around and float32 inputs lose precision" if reg == "squares" else
                              "float32 inputs are summed in float32"))
                if reg == "squares":
                    # the squaring itself, not only the reduction that follows it
                    for x in ast.walk(n.value):
                        sq = (isinstance(x, ast.Call) and prog.qualify(f.module, x.func, f) in ("numpy.square", "numpy.power")) or \
                             (isinstance(x, ast.BinOp) and isinstance(x.op, ast.Pow) and isinstance(x.right, ast.Constant) and x.right.value == 2) or \
                             (isinstance(x, ast.BinOp) and isinstance(x.op, ast.Mult) and astq.text(x.left) == astq.text(x.right))
                        if not sq:
                            continue
                        tg = dt.of(x)
                        if "unknown" in tg:
                            ctx.error(R, "cannot decide the dtype `%s` is computed in (%s)" % (astq.text(x)[:50], sorted(tg)))
                        else:
                            ctx.check(tg == {"f64"}, R, f, n, "the squares are computed in float64",
                                      "`%s` squares the input in its own dtype (%s) before the float64 reduction: squares of narrow integer inputs wrap around "
                                      "(|x| > 181 for int16, > 15 for uint8) and float32 inputs lose precision, so the second moment - and the variance - is wrong"
                                      % (astq.text(x)[:50], sorted(tg)), robust=True)


def appliers(ctx, R="R-C16-apply"):
    """apply dispatches to the vector / tensor body with its arguments unchanged (forward-substituted return values)"""
    prog = ctx.prog
    c = _std(prog)
    ap = prog.own_method(c, "apply")
    ev = SymEval(prog, ap).run()
    ft, ax, ip = (S.sym(p_) for p_ in ap.params[1:4])
    want = {S.call("._apply_tensor", S.sym(ap.params[0]), ft, ax, ip), S.call("._apply_vector", S.sym(ap.params[0]), ft, ip)}
    got = {v for _, v, _ in ev.returns}
    if got == want:
        ctx.ok(R, ap.loc(), "apply forwards features, axis and in_place unchanged to the vector / tensor body")
    else:
        calls = set()
        for v in got:
            calls |= SC.vocabulary(v)[0]
        if calls <= {"._apply_tensor", "._apply_vector"} and not any(S.has_unknown(v) or SC.residual_conditions(v) for v in got):
            ctx.bad(R, ap, ap.node, "apply returns %s" % sorted(S.show(v)[:80] for v in got), "apply forwards features, axis and in_place unchanged to the vector / tensor body", robust=True)
        else:
            ctx.error(R, "cannot decide how apply dispatches: %s" % sorted(S.show(v)[:80] for v in got))


# ------------------------------------------------------------------ value rules (scenario evaluation, DESIGN 10.6)
_ST = S.sym("self._stats")


def _g(base, *idx):
    return S.call("getitem", base, S.call("tuple", *idx))


_SL = S.call("slice", S.NONE, S.lift(-1), S.NONE)
_REG = {"count": (S.ZERO, S.lift(-1)), "sums": (S.ZERO, _SL), "squares": (S.ONE, _SL)}


def _spec(e, arr, stats_none=None, have=None, norm_var=None, ip=None, f64=None, anyzero=None, rank=None, axis=None, single=None, dims_match=True,
          nonempty=None):
    count = _g(_ST, *_REG["count"])

    def strip(x):
        while SC.is_call(x, ".astype"):
            x = x.args[1]
        return x

    def fn(x):
        if x.op == "sym":
            nm = x.args[0]
            if nm == "in_place" and ip is not None:
                return S.lift(ip)
            if nm == "self._norm_var" and norm_var is not None:
                return S.lift(norm_var)
            if nm == "axis" and axis is not None:
                return S.lift(axis)
            if nm == arr + ".ndim" and rank is not None:
                return S.lift(rank)
            return None
        if x.op == "cmp":
            op, a, b = x.args
            if op in ("is", "is not") and a == _ST and b == S.NONE and stats_none is not None:
                return S.lift(stats_none == (op == "is"))
            if op in ("==", "!=") and {S.show(a), S.show(b)} & {arr + ".dtype"} and {S.show(a), S.show(b)} & {"numpy.float64", "np.float64"} and f64 is not None:
                return S.lift(f64 == (op == "=="))
            if op in ("==", "!=") and any(S.show(y).startswith("getitem(self._stats.shape, 1)") for y in (a, b)):
                return S.lift((op == "==") == dims_match)  # scenario: the coefficient count matches (or not) the stored width
            if single is not None and rank is not None and axis is not None and any(S.show(y).find(arr + ".shape") >= 0 for y in (a, b)):
                # the "is this one vector?" test, whatever its spelling: the lengths of the other axes are made concrete (all 1 for a
                # single vector; none 1, or - "mixed" - some 1 and some not, for several vectors) and the test is folded
                other_ = [k for k in range(rank) if k != axis % rank]
                lens_ = {True: [1] * len(other_), False: [5, 4, 3][:len(other_)], "mixed": ([1, 5, 3][:len(other_)] if len(other_) > 1 else [5])}[single]
                conc = dict(zip(other_, lens_))

                def cfn(y):
                    if SC.is_call(y, "getitem") and len(y.args) == 3 and y.args[1] == S.sym(arr + ".shape") and y.args[2].is_const:
                        try:
                            k_ = int(y.args[2].value) % rank
                        except Exception:
                            return None
                        if k_ in conc:
                            return S.lift(conc[k_])
                    if y.op == "sym" and y.args[0] == "axis":
                        return S.lift(axis)
                    if SC.is_call(y, "len") and len(y.args) == 2 and y.args[1] == S.sym(arr + ".shape"):
                        return S.lift(rank)
                    if y.op == "sym" and y.args[0] == arr + ".ndim":
                        return S.lift(rank)
                    return None
                try:
                    folded = SC.fold_seq(SC.transform(x, cfn))
                except Exception:
                    folded = x
                if folded.is_const:
                    return folded
            if op in ("==", "!=") and single is not None and any(SC.is_call(y, "sum") for y in (a, b)):
                return S.lift((single is True) == (op == "=="))
            return None
        if nonempty and rank is not None:
            # truth values of a non-empty array's shape / size / length
            if x.op in ("not", "bool") and (S.show(x.args[0]) in (arr + ".shape",) or SC.is_call(x.args[0], "len") or SC.is_call(x.args[0], "numpy.prod")):
                t = (rank > 0) if S.show(x.args[0]) == arr + ".shape" else True
                return S.lift(t if x.op == "bool" else not t)
            if x.op == "cond" and S.show(x.args[0]) == arr + ".shape":
                return x.args[1] if rank > 0 else x.args[2]
            if x.op in ("and", "or") and any(S.show(a_) == arr + ".shape" for a_ in x.args):
                return S.rebuild(x.op, [S.lift(rank > 0) if S.show(a_) == arr + ".shape" else a_ for a_ in x.args])
            if x.op == "call" and x.args[0] == ".shape" and len(x.args) == 2 and SC.is_call(x.args[1], "numpy.atleast_2d") and rank == 1 \
                    and S.show(x.args[1].args[1]) == arr:
                return S.call("tuple", S.ONE, S.call("len", S.sym(arr)))
        if x.op in ("and", "or", "not", "bool", "cond") and have is not None:
            pos = range(len(x.args)) if x.op != "cond" else (0,)
            args = list(x.args)
            hit = False
            for i in pos:
                if args[i] == count:
                    args[i] = S.lift(have)
                    hit = True
            if hit:
                return S.rebuild(x.op, args)
        if x.op == "call":
            nm = x.args[0]
            if nm in ("np.any", "numpy.any", ".any") and anyzero is not None and any(SC.is_call(y, "np.isclose", "numpy.isclose") for y in S.walk(x)):
                return S.lift(anyzero)
            if nm in (".shape", ".ndim") and len(x.args) == 2:
                inner = strip(x.args[1])
                if inner.op == "sym":
                    return fn(S.sym(inner.args[0] + nm)) or S.sym(inner.args[0] + nm)
            if nm == "len" and len(x.args) == 2 and rank is not None and S.show(x.args[1]) in (arr + ".shape",):
                return S.lift(rank)
        return None

    def ident(x):
        # asarray / asanyarray of an array is the array (the property speaks of arrays)
        if SC.is_call(x, "numpy.asarray", "numpy.asanyarray", "numpy.ascontiguousarray") and len(x.args) == 2:
            return x.args[1]
        return None
    out = SC.transform(SC.canon_np(e), ident)
    for _ in range(5):
        nxt = SC.fold_seq(SC.transform(out, fn))
        if nxt == out:
            break
        out = nxt
    return out


def _spec_test(e, arr, **kw):
    """_spec for an expression used as a condition: a bare count is its truth value"""
    out = _spec(e, arr, **kw)
    if kw.get("have") is not None and out == _g(_ST, *_REG["count"]):
        return S.lift(kw["have"])
    return out


def _canon_shape(e, arr, rank):
    """len(x) is x.shape[0]; x.shape[-k] is x.shape[rank - k] when the rank is known"""
    if rank is None:
        rank_ = None
    else:
        rank_ = rank

    def fn(x):
        if SC.is_call(x, "len") and len(x.args) == 2 and x.args[1] == S.sym(arr):
            return S.call("getitem", S.sym(arr + ".shape"), S.ZERO)
        if SC.is_call(x, "getitem") and len(x.args) == 3 and x.args[1] == S.sym(arr + ".shape") and x.args[2].is_const and rank_:
            try:
                i = int(x.args[2].value)
            except Exception:
                return None
            if i < 0:
                return S.call("getitem", x.args[1], S.lift(i % rank_))
        return None
    return SC.transform(e, fn)


def _strip_widening(e):
    """x.astype(float64) and dtype=float64 keyword arguments do not change values (only the precision they are computed in,
    which the dtype clauses of R-C16-slots decide)"""
    def fn(x):
        if SC.is_call(x, ".astype") and len(x.args) >= 3 and S.show(x.args[2]) in ("numpy.float64", "np.float64"):
            return x.args[1]
        if x.op == "call" and any(SC.is_call(a, "kw:dtype") for a in x.args[1:] if isinstance(a, S.E)):
            return S.call(x.args[0], *[a for a in x.args[1:] if not SC.is_call(a, "kw:dtype")])
        if SC.is_call(x, "list"):
            return S.call("tuple", *x.args[1:])  # a list or a tuple of the same items is the same argument to prod / sum / indexing
        if SC.is_call(x, "numpy.sum") and len(x.args) >= 2:
            return S.call(".sum", *x.args[1:])
        if SC.is_call(x, "numpy.square") and len(x.args) == 2:
            return S.power(x.args[1], S.lift(2))
        if SC.is_call(x, "numpy.sqrt") and len(x.args) == 2:
            return S.power(x.args[1], S.lift(Fraction(1, 2)))
        return None
    return SC.transform(e, fn)


def _verdict(ctx, R, f, node, what, sc, got, want, vocab):
    got, want = _strip_widening(got), _strip_widening(want)
    v, info = SC.same_value(got, want)
    if v == "equal":
        return True
    calls, syms = SC.vocabulary(got)
    outside = {c for c in calls if not str(c).startswith("kw:")} - vocab
    if v == "differ" and not outside and not SC.residual_conditions(got) and not S.has_unknown(got):
        ctx.bad(R, f, node, "[%s] %s ; documented: %s (witness over the sub-terms: %s)" % (sc, S.show(got)[:240], S.show(want)[:240], str(info)[:160]), what, robust=True)
    else:
        ctx.error(R, "cannot decide [%s] %s: %s -- %s" % (sc, what, ("constructs outside the rule's vocabulary: " + ", ".join(sorted(map(str, outside)))) if outside else
                                                          (str(info)[:120] if info else "unresolved condition"), S.show(got)[:200]))
    return False


def _flat_stored(e):
    """stored(stored(base, i, v), j, w) is stored(base, i, v, j, w)"""
    def fn(x):
        if SC.is_call(x, "stored") and SC.is_call(x.args[1], "stored"):
            inner = x.args[1]
            return S.call("stored", *(list(inner.args[1:]) + list(x.args[2:])))
        return None
    return SC.transform(e, fn)


_ACC_VOCAB = {"stored", "getitem", "tuple", "slice", "list", ".sum", "numpy.prod", "numpy.zeros", "len", ".astype", "comp", "range"}


def _check_acc_one(ctx, R, f, st, arr, label, spec_extra, stats_none, nvar, rank, axis):
    """st: forward-substituted value of self._stats after the call; scen: [(rank or None for a vector, axis)]"""
    x = S.sym(arr)
    what = "%s adds the number of vectors to the count, x to the sums and x^2 to the squares (reduced over all axes but the coefficient axis)" % label
    if True:
        if True:
            vector = rank is None or rank == 1
            sc = "%s call%s, norm_var=%s" % ("first" if stats_none else "later", "" if rank is None else ", rank %d, axis %d" % (rank, axis), nvar)
            kw = dict(stats_none=stats_none, rank=rank, axis=axis, norm_var=nvar)
            kw.update(spec_extra or {})
            got = _flat_stored(_spec(st, arr, **kw))
            if vector:
                ncoef = S.call("len", x)
                incs = {"count": S.ONE, "sums": x, "squares": S.power(x, S.lift(2))}
            else:
                ncoef = S.call("getitem", S.sym(arr + ".shape"), S.lift(axis))
                other = [k for k in range(rank) if k != axis % rank]
                ot = S.call("tuple", *[S.lift(k) for k in other])
                incs = {"count": S.call("numpy.prod", S.call("tuple", *[S.call("getitem", S.sym(arr + ".shape"), S.lift(k)) for k in other])),
                        "sums": S.call(".sum", x, S.call("kw:axis", ot)),
                        "squares": S.call(".sum", S.power(x, S.lift(2)), S.call("kw:axis", ot))}
            base = S.call("numpy.zeros", S.call("tuple", S.lift(2), S.add(ncoef, S.ONE)), S.call("kw:dtype", S.sym("numpy.float64"))) if stats_none else _ST
            if not (SC.is_call(got, "stored") and (len(got.args) - 2) % 2 == 0):
                ctx.error(R, "cannot decide [%s] %s: the statistics are not updated by element stores: %s" % (sc, what, S.show(got)[:160]))
                return False
            rk_ = 1 if rank is None else rank
            got = _canon_shape(got, arr, rk_)
            base = _canon_shape(base, arr, rk_)
            incs = {k_: _canon_shape(v_, arr, rk_) for k_, v_ in incs.items()}
            gbase = got.args[1]
            if _strip_widening(gbase) != _strip_widening(base):
                calls, _ = SC.vocabulary(gbase)
                if ({c_ for c_ in calls if not str(c_).startswith("kw:")} - _ACC_VOCAB) or SC.residual_conditions(gbase) or S.has_unknown(gbase):
                    ctx.error(R, "cannot decide [%s] %s: matrix before the update is %s" % (sc, what, S.show(gbase)[:160]))
                else:
                    ctx.bad(R, f, f.node, "[%s] the statistics matrix the update starts from is %s ; documented: %s" % (sc, S.show(gbase)[:200], S.show(base)[:200]),
                            "the matrix is created as float64 zeros of shape (2, coefficients + 1) on the first call and kept afterwards", robust=True)
                return False
            regions = {}
            for i_, v in zip(got.args[2::2], got.args[3::2]):
                regions.setdefault(i_, []).append(v)
            want_idx = {S.call("tuple", *idx): k for k, idx in _REG.items()}
            extra = [i_ for i_ in regions if i_ not in want_idx]
            if extra:
                ctx.bad(R, f, f.node, "[%s] an unexpected region of the statistics matrix is written: %s" % (sc, S.show(extra[0])[:80]), "only count / sums / squares are updated", robust=True)
                return False
            for idx_e, k in want_idx.items():
                vs = regions.get(idx_e, [])
                if len(vs) != 1:
                    ctx.bad(R, f, f.node, "[%s] the %s region %s is written %d times by %s" % (sc, k, REGIONS[k], len(vs), label), "%s updates the %s region" % (label, k), robust=True)
                    return False
                want = S.add(S.call("getitem", gbase, idx_e), incs[k])
                if not _verdict(ctx, R, f, f.node, what, sc + ", " + k, vs[0], want, _ACC_VOCAB):
                    return False
    return True


def _check_acc(ctx, R, f, st, arr, scen, label, spec_extra=None):
    """every scenario is evaluated; a definite difference in one of them is reported even if another one cannot be decided"""
    what = "%s adds the number of vectors to the count, x to the sums and x^2 to the squares (reduced over all axes but the coefficient axis)" % label
    okc, undecided = 0, []
    for stats_none, nvar in ((True, True), (False, True), (True, False), (False, False)):
        for rank, axis in scen:
            ne, nf = len(ctx.errors), len(ctx.findings)
            if _check_acc_one(ctx, R, f, st, arr, label, spec_extra, stats_none, nvar, rank, axis):
                okc += 1
                continue
            if len(ctx.findings) > nf:
                # a violation: the "cannot decide" answers of the other scenarios add nothing
                for e_ in undecided:
                    if e_ in ctx.errors:
                        ctx.errors.remove(e_)
                return False
            undecided.extend(ctx.errors[ne:])
            del ctx.errors[ne:]
    if undecided:
        ctx.errors.append(undecided[0])
        return False
    ctx.ok(R, f.loc(), what, "%d scenarios (first / later call x norm_var%s) evaluated" % (okc, "" if scen == [(None, None)] else " x rank x axis"))
    return True


def acc_values(ctx, R="R-C16-slots"):
    """the statistics matrix after an accumulator, as a value: count += number of vectors, sums += x, squares += x^2"""
    prog = ctx.prog
    c = _std(prog)
    for name in ("_accumulate_vector", "_accumulate_tensor"):
        f = c.methods.get(name)
        if f is None:
            continue  # the entry point is decided as a whole by acc_entry
        arr = f.params[1]
        ev = SymEval(prog, f).run()
        st = ev.env.get("self._stats")
        ctx.need(st is not None, R, "%s does not assign or update self._stats" % name)
        scen = [(None, None)] if name.endswith("vector") else [(2, 0), (2, -1), (3, 1), (3, -1), (3, 0)]
        _check_acc(ctx, R, f, st, arr, scen, name)


def acc_entry(ctx, R="R-C16-slots"):
    """accumulate(features, axis) as a whole, helpers read through: a vector (rank 1, whatever the axis argument) and tensors"""
    prog = ctx.prog
    c = _std(prog)
    f = prog.own_method(c, "accumulate")
    arr = f.params[1]
    ev = SymEval(prog, f, inline_self=True).run()
    st = ev.exit_value("self._stats")
    if st is None:
        ctx.error(R, "cannot decide accumulate as a whole: the statistics matrix is not updated on the fall-through path")
        return
    _check_acc(ctx, R, f, st, arr, [(1, -1), (1, 0), (2, 0), (2, -1), (3, 1)], "accumulate", spec_extra={"nonempty": True})


def _dtype_of(e, arr, f64):
    """dtype class of a specialised value: 'f64' | 'in' (the non-float64 input's own dtype) | 'py' (python scalar) | '?'"""
    if not isinstance(e, S.E):
        return "?"
    if e.is_const:
        return "py"
    if e.op == "sym":
        if e.args[0] == arr:
            return "f64" if f64 else "in"
        if e.args[0].startswith("self._stats"):
            return "f64"
        return "?"
    if e.op == "call":
        nm = e.args[0]
        if nm == ".astype":
            return "f64" if S.show(e.args[2]) in ("numpy.float64", "np.float64") else "?"
        if nm in ("filled", "numpy.zeros_like", "numpy.ones_like", "numpy.empty_like", "stored", "getitem", ".sum", ".copy", "numpy.moveaxis", ".reshape"):
            return _dtype_of(e.args[1], arr, f64)
        if nm in ("numpy.ones", "numpy.zeros"):
            kws = [a for a in e.args[1:] if SC.is_call(a, "kw:dtype")]
            return "f64" if not kws or S.show(kws[0].args[1]) in ("numpy.float64", "np.float64") else "?"
        if nm == ".mean":
            return "f64" if _dtype_of(e.args[1], arr, f64) in ("f64", "in") else "?"
        return "?"
    if e.op in ("add", "mul", "neg", "truediv", "pow"):
        ks = [_dtype_of(a, arr, f64) for a in e.args if isinstance(a, S.E)]
        if "f64" in ks:
            return "f64"
        if all(k == "py" for k in ks):
            return "py"
        if all(k in ("py", "in") for k in ks) and e.op in ("neg",):
            return "in"
        return "?"
    return "?"


def _zeros(e):
    def fn(x):
        if SC.is_call(x, "numpy.zeros_like") and len(x.args) == 2:
            return S.call("filled", x.args[1], S.ZERO)
        return None
    return SC.transform(e, fn)


_APP_VOCAB = {"filled", "numpy.zeros_like", "stored", "getitem", "tuple", "slice", "list", ".sum", ".mean", "numpy.prod", "numpy.isclose", "numpy.ones", ".astype", "len", "comp", "range"}


def apply_values(ctx, R="R-C16-apply"):
    """the value returned by the appliers, per scenario: (x - mean) * scale with the documented mean / variance / scale"""
    prog = ctx.prog
    c = _std(prog)
    count, sums, sq = (_g(_ST, *_REG[k]) for k in ("count", "sums", "squares"))
    for name in ("_apply_vector", "_apply_tensor"):
        f = prog.own_method(c, name)
        arr = f.params[1]
        ev = SymEval(prog, f).run()
        ctx.need(len(ev.returns) >= 1, R, "%s has no return" % name)
        x = S.sym(arr)
        what = "%s returns (x - mean) * scale with mean = sums / count, scale = 1 / sqrt(squares / count - mean^2) iff norm_var (zero variances replaced by 1)" % name
        tens = name.endswith("tensor")
        n_ok = 0
        done = False
        for have in (True, False):
            for nv in (True, False):
                for ip, f64 in ((True, True), (True, False), (False, True)):
                    for anyzero in ((True, False) if nv else (False,)):
                        for rank, axis in ([(None, None)] if not tens else [(2, 0), (3, -1), (3, 1)]):
                            for single, absent in [(s_, a_) for s_ in (((True, False, "mixed") if (rank or 0) > 2 else (True, False)) if (tens and not have) else (None,))
                                                   for a_ in ((True, False) if not have else (False,))]:
                                sc = "statistics %s, norm_var=%s, in_place=%s, %s input%s%s%s" % (
                                    "accumulated" if have else ("absent" if absent else "empty (count 0)"), nv, ip, "float64" if f64 else "other-dtype", ", a zero variance" if anyzero else "",
                                    "" if rank is None else ", rank %d, axis %d" % (rank, axis), "" if single is None else (", single vector" if single is True else (", several vectors" if single is False else ", several vectors along one axis, a singleton other axis")))
                                kw = dict(stats_none=False if have else absent, have=have, norm_var=nv, ip=ip, f64=f64, anyzero=anyzero, rank=rank, axis=axis, single=single)
                                W = x if (ip and f64) else S.call(".astype", x, S.sym("numpy.float64"))
                                raising = (not have) and nv and (single is None or single is True)
                                # which exit is taken in the scenario
                                taken = None
                                for g, v, node in ev.returns:
                                    gs = _spec_test(g, arr, **kw)
                                    if gs.is_const and S.truthy(gs):
                                        taken = (v, node)
                                        break
                                    if not gs.is_const:
                                        taken = "undecided"
                                rs = [_spec_test(g, arr, **kw) for g, _ in ev.raises]
                                raised = any(r.is_const and S.truthy(r) for r in rs)
                                if raising:
                                    if raised:
                                        n_ok += 1
                                    elif any(not r.is_const for r in rs):
                                        ctx.error(R, "cannot decide [%s]: raise conditions %s" % (sc, [S.show(r)[:80] for r in rs if not r.is_const][:2]))
                                        done = True
                                    else:
                                        ctx.bad(R, f, f.node, "[%s] %s does not refuse to standardise the variance without statistics" % (sc, name),
                                                "variance normalisation without global statistics is refused (ValueError)", robust=True)
                                        done = True
                                    if done:
                                        break
                                    continue
                                if raised and not any(not r.is_const for r in rs):
                                    ctx.bad(R, f, f.node, "[%s] %s raises although the documented result exists" % (sc, name), what, robust=True)
                                    done = True
                                    break
                                if taken is None or taken == "undecided":
                                    ctx.error(R, "cannot decide [%s]: which return of %s is taken" % (sc, name))
                                    done = True
                                    break
                                got = _spec(taken[0], arr, **kw)
                                dk = _dtype_of(got, arr, f64)
                                if dk in ("in", "py"):
                                    ctx.bad("R-C16-float64", f, taken[1], "[%s] %s returns an array of the input's own dtype (%s), not float64" % (sc, name, S.show(got)[:120]),
                                            "%s returns a float64 array" % name, robust=True)
                                    done = True
                                    break
                                if dk == "?":
                                    ctx.error("R-C16-float64", "cannot decide the dtype of the value %s returns in [%s]: %s" % (name, sc, S.show(got)[:160]))
                                    done = True
                                    break
                                if not have and (single is None or single is True):
                                    want = S.call("filled", W, S.ZERO)
                                else:
                                    if have:
                                        cnt, M, V = count, S.truediv(sums, count), None
                                        V = S.sub(S.truediv(sq, count), S.power(M, S.lift(2)))
                                    else:
                                        other = [k for k in range(rank) if k != axis % rank]
                                        ot = S.call("tuple", *[S.lift(k) for k in other])
                                        cnt = S.call("numpy.prod", S.call("tuple", *[S.call("getitem", S.sym(arr + ".shape"), S.lift(k)) for k in other]))
                                        M = S.call(".mean", W, S.call("kw:axis", ot))
                                        V = S.sub(S.truediv(S.call(".sum", S.power(W, S.lift(2)), S.call("kw:axis", ot)), cnt), S.power(M, S.lift(2)))
                                    if nv:
                                        V2 = S.call("stored", V, S.call("numpy.isclose", V, S.ZERO), S.ONE) if anyzero else V
                                        Sc = S.truediv(S.ONE, S.power(V2, S.lift(Fraction(1, 2))))
                                    else:
                                        Sc = None
                                    if tens:
                                        items = [S.NONE] * rank
                                        items[axis] = S.call("slice", S.NONE, S.NONE, S.NONE)
                                        SLI = S.call("tuple", *items)
                                        if Sc is None:
                                            want = S.sub(W, S.call("getitem", M, SLI))
                                        else:
                                            want = S.sub(S.mul(W, S.call("getitem", Sc, SLI)), S.mul(S.call("getitem", M, SLI), S.call("getitem", Sc, SLI)))
                                    else:
                                        want = S.sub(W, M) if Sc is None else S.sub(S.mul(W, Sc), S.mul(M, Sc))
                                got = _zeros(_ones(got))
                                if not _verdict(ctx, R, f, taken[1], what, sc, got, want, _APP_VOCAB):
                                    done = True
                                    break
                                n_ok += 1
                            if done:
                                break
                        if done:
                            break
                    if done:
                        break
                if done:
                    break
            if done:
                break
        if not done:
            ctx.ok(R, f.loc(), what, "%d scenarios evaluated" % n_ok)
            ctx.ok("R-C16-float64", f.loc(), "%s returns a float64 array (the input itself only when in_place on a float64 array)" % name, "%d scenarios" % n_ok)


def _ones(e):
    """np.ones(1)[...] broadcast as a factor is the factor 1"""
    def fn(x):
        if SC.is_call(x, "numpy.ones"):
            return S.ONE
        if SC.is_call(x, "getitem") and len(x.args) == 3 and x.args[1].is_const and SC._pure_reshape_index(x.args[2]):
            return x.args[1]
        return None
    return SC.transform(SC.distribute_reshape(e), fn)


def blocked_loops(ctx, R="R-C16-blocked"):
    from . import blocked
    c = _std(ctx.prog)
    blocked.check(ctx, R, [m for m in c.methods.values()], "a block-wise accumulation / application covers every feature vector")


def derived_state(ctx, R="R-C16-derived-state"):
    prog = ctx.prog
    c = _std(prog)
    base = {"_stats", "_norm_var"}
    writers = {}
    for f in c.methods.values():
        for attr, kind, node in attr_writes(f):
            writers.setdefault(attr, []).append((f, kind, node))
    derived = sorted(set(writers) - base)
    stats_writers = sorted({f for f, kind, node in writers.get("_stats", [])}, key=lambda f: f.node.lineno)
    if not derived:
        ctx.ok(R, c.loc(), "Standardize keeps no state besides the statistics matrix and norm_var (nothing derived can go stale)")
        return
    for d in derived:
        for f in stats_writers:
            if f.name == "__init__":
                continue
            ex, per_ret, cfg = must_reinit(prog, f, {d})
            ok = d in ex and all(d in v for v in per_ret.values())
            ctx.check(ok, R, f, f.node, "%s invalidates self.%s whenever it changes the statistics" % (f.name, d),
                      "self.%s is derived from the statistics (written in %s) but %s changes the statistics without resetting it; apply would "
                      "keep using the means/scales of the earlier data" % (d, ", ".join(sorted({w[0].name for w in writers[d]})), f.name))


def dimcheck(ctx, R="R-C16-dimcheck"):
    """a coefficient count that differs from the stored width - 1 raises ValueError, before anything is written"""
    prog = ctx.prog
    c = _std(prog)
    for name in ("_accumulate_vector", "_accumulate_tensor", "_apply_vector", "_apply_tensor"):
        f = prog.own_method(c, name)
        arr = f.params[1]
        ev = SymEval(prog, f).run()
        hit, undecided = None, []
        for g, node in ev.raises:
            gs = _spec(g, arr, stats_none=False, dims_match=False, rank=(2 if name.endswith("tensor") else None), axis=(0 if name.endswith("tensor") else None))
            if gs.is_const and S.truthy(gs):
                hit = node
                break
            if not gs.is_const:
                undecided.append(S.show(gs)[:100])
        what = "%s raises ValueError when the coefficient count differs from the stored width - 1" % name
        if hit is None and undecided:
            ctx.error(R, "cannot decide whether %s refuses a coefficient-count mismatch: raise conditions %s" % (name, undecided[:2]))
            continue
        ctx.check(hit is not None, R, f, f.node, what, "%s raises nothing when self._stats.shape[1] != coefficient count + 1 (statistics present)" % name, robust=True)
        if hit is None:
            continue
        exc = hit.exc.func if isinstance(hit.exc, ast.Call) else hit.exc
        ctx.check(exc is not None and astq.text(exc).split(".")[-1] == "ValueError", R, f, f.node, "%s: the mismatch is reported as a ValueError" % name,
                  "the mismatch raises %s" % (astq.text(exc) if exc is not None else "a bare raise"), robust=True)
        # nothing is written in that scenario: the path condition of every in-place update is false when the counts differ
        kw = dict(stats_none=False, dims_match=False, rank=(2 if name.endswith("tensor") else None), axis=(0 if name.endswith("tensor") else None))
        for n in f.body_nodes():
            if isinstance(n, ast.AugAssign):
                try:
                    gn = _spec(ev.guard_of(n), arr, **kw)
                except Exception:
                    continue
                if gn.is_const:
                    ctx.check(not S.truthy(gn), R, f, n, "the dimension check precedes this update",
                              "this update runs although the coefficient count differs from the stored width (the check comes later)", robust=True)


def readonly(ctx, R="R-C16-readonly"):
    prog = ctx.prog
    c = _std(prog)
    eff = Effects(prog, flag="in_place")
    f = prog.own_method(c, "apply")
    ws, _ = eff.writes_to(f, f.params[1])
    bad = [w for w in ws if False in w.flags]
    ctx.check(not bad, R, f, bad[0].stmt if bad else f.node, "apply writes through its input only when in_place is true",
              "Standardize.apply can modify the caller's array with in_place=False (%s)" % ", ".join(sorted({w.how for w in bad})), robust=True)
    ctx.check(len(ws) >= 1, R, f, f.node, "in_place=True is honoured (the data is standardised in place)", robust=True)
    from ..eff import check_result_fresh
    for nm in ("_apply_vector", "_apply_tensor"):
        if nm in c.methods:
            check_result_fresh(ctx, R, c.methods[nm])
    acc = prog.own_method(c, "accumulate")
    eff2 = Effects(prog)
    ws, _ = eff2.writes_to(acc, acc.params[1])
    ctx.check(not ws, R, acc, ws[0].stmt if ws else acc.node, "accumulate never writes to the data it is given",
              "accumulate can modify the caller's array (%s)" % ", ".join(sorted({w.how for w in ws})), robust=True)
