"""C16 - Standardize normalises with exactly the statistics it was given."""

import ast

from .. import astq
from .. import sym as S
from ..cfg import CFG
from ..dt import DT
from ..eff import Effects
from ..report import MISSING
from ..model import AnalysisError
from ..symeval import SymEval
from . import cli_common as cc
from .c04 import attr_writes, must_reinit

LEVEL = "other"
TECHNIQUE = ("who-may-write / additive-update rule on the statistics matrix, sibling agreement of the four accumulate/apply "
             "bodies on the three regions as closed forms, dtype lattice for the increments, derived-state invalidation rule, "
             "effect analysis with the in_place flag")
EXPLANATION = (
    "Decides: every write to the statistics matrix reachable from accumulate is a += onto a matrix created as float64 zeros "
    "and no increment reads the matrix back (so any split or order of the same vectors gives the same sums up to "
    "rounding); vector and tensor accumulators update the same three regions - count [0,-1] by the number of vectors, sums "
    "[0,:-1], sums of squares [1,:-1] - with increments computed in float64; both appliers read count, mean = sums/count, "
    "var = squares/count - mean^2 and apply x*scale - mean*scale with scale = 1/sqrt(var) iff norm_var (zero variances "
    "replaced first); any attribute derived from the statistics is invalidated by every method that writes them; all four "
    "bodies raise ValueError on a dimension mismatch before writing; the result is float64 and the input is written "
    "through only when in_place is true and it already is float64. Does NOT decide numerical values or the mean-0 / "
    "variance-1 outcome of local standardisation.")

REGIONS = {"count": "self._stats[0, -1]", "sums": "self._stats[0, :-1]", "squares": "self._stats[1, :-1]"}


def run(ctx):
    ctx.rule(additive)
    ctx.rule(slots)
    ctx.rule(appliers)
    ctx.rule(derived_state)
    ctx.rule(dimcheck)
    ctx.rule(readonly)


def _std(prog):
    return prog.cls("post.Standardize")


def additive(ctx, R="R-C16-additive"):
    prog = ctx.prog
    c = _std(prog)
    acc = prog.own_method(c, "accumulate")
    funcs = [acc]
    for call in astq.func_calls(acc):
        if isinstance(call.func, ast.Attribute) and astq.is_name(call.func.value, acc.params[0]):
            m = c.methods.get(call.func.attr)
            if m is not None:
                funcs.append(m)
    ctx.need(len(funcs) >= 3, R, "accumulate no longer dispatches to vector/tensor accumulators")
    n = 0
    for f in funcs:
        for attr, kind, node in attr_writes(f):
            if attr != "_stats":
                continue
            n += 1
            if kind == "full":
                v = node.value
                ok = isinstance(v, ast.Call) and prog.qualify(f.module, v.func, f) == "numpy.zeros" and \
                    astq.kw(v, "dtype") is not None and prog.qualify(f.module, astq.kw(v, "dtype"), f) == "numpy.float64"
                pm = astq.parents(f)
                g = [astq.text(a.test) for a in astq.ancestors(pm, node) if isinstance(a, ast.If)]
                ctx.check(ok and g[:1] == ["self._stats is None"], R, f, node, "the matrix is created as float64 zeros, only when there is none yet",
                          "statistics are (re)assigned by `%s` (guard %s): accumulated statistics would be lost or mis-typed" % (astq.text(node)[:80], g[:1]))
            elif isinstance(node, ast.AugAssign) and isinstance(node.op, ast.Add):
                reads = [x for x in ast.walk(node.value) if astq.is_self_attr(x, f.params[0], "_stats")]
                ctx.check(not reads, R, f, node, "the update is a += whose increment does not read the statistics back",
                          "the increment reads self._stats: accumulation is no longer additive in the data")
            else:
                ctx.bad(R, f, node, "statistics are written by `%s`, which is not an additive (+=) update; splitting or re-ordering the same "
                        "data across accumulate calls would change the result" % astq.text(node)[:80], "statistics are only ever incremented")
    ctx.floor(R, n, 8)
    # dispatch: tensors (ndim > 1) vs vectors; empty input rejected first
    body = [s for s in acc.node.body if not (isinstance(s, ast.Expr) and isinstance(s.value, ast.Constant))]
    ok = isinstance(body[0], ast.If) and len(body[0].body) == 1 and isinstance(body[0].body[0], ast.Raise)
    ctx.check(ok, R, acc, body[0], "an empty array is rejected before anything is accumulated")


def _region(node_target):
    return astq.text(node_target).replace(" ", "")


def slots(ctx, R="R-C16-slots"):
    prog = ctx.prog
    c = _std(prog)
    want_regions = {v.replace(" ", ""): k for k, v in REGIONS.items()}
    for name, arr in (("_accumulate_vector", "vec"), ("_accumulate_tensor", "tensor")):
        f = prog.own_method(c, name)
        arr = f.params[1]
        dt = DT(prog, f, array_params=[arr])
        seen = {}
        for n in f.body_nodes():
            if isinstance(n, ast.AugAssign) and isinstance(n.target, ast.Subscript) and astq.is_self_attr(n.target.value, f.params[0], "_stats"):
                reg = want_regions.get(_region(n.target))
                if reg is None:
                    ctx.bad(R, f, n, "an unexpected region of the statistics matrix is updated: %s" % astq.text(n.target), "only count / sums / squares are updated")
                    continue
                seen.setdefault(reg, []).append(n)
        for reg in REGIONS:
            ctx.check(len(seen.get(reg, [])) >= 1, R, f, f.node, "%s updates the %s region" % (name, reg), "%s never updates the %s region %s" % (name, reg, REGIONS[reg]))
        for n in seen.get("count", []):
            txt = astq.text(n.value).replace(" ", "")
            ok = txt == "1" if name.endswith("vector") else txt == "np.prod(tuple((%s.shape[idx]foridxinother_axes)))" % arr
            ctx.check(ok, R, f, n, "the count grows by the number of feature vectors added", "count increment is %s" % astq.text(n.value))
        for reg in ("sums", "squares"):
            for n in seen.get(reg, []):
                tags = dt.of(n.value)
                ctx.check(tags == {"f64"}, R, f, n, "the %s increment is computed in float64" % reg,
                          "the %s increment `%s` is computed with dtype %s, not float64: %s" % (
                              reg, astq.text(n.value)[:70], sorted(tags),
                              "squares of narrow integer inputs wrap around and float32 inputs lose precision" if reg == "squares" else
                              "float32 inputs are summed in float32"))
                # the squares are squares of the data, the sums are the data
                calls = [x for x in ast.walk(n.value) if isinstance(x, ast.Call)]
                has_sq = any(prog.qualify(f.module, x.func, f) == "numpy.square" or (isinstance(x.func, ast.Attribute) and x.func.attr == "square") for x in calls) or \
                    any(isinstance(x, ast.BinOp) and isinstance(x.op, ast.Pow) for x in ast.walk(n.value))
                ctx.check(has_sq == (reg == "squares"), R, f, n, "%s region accumulates %s" % (reg, "x^2" if reg == "squares" else "x"),
                          "%s region is incremented by %s" % (reg, astq.text(n.value)[:70]))
                if name.endswith("tensor"):
                    ok = "axis=other_axes" in astq.text(n.value).replace(" ", "")
                    ctx.check(ok, R, f, n, "the tensor is reduced over all axes but the coefficient axis", "%s increment is not reduced over other_axes" % reg)
    f = prog.own_method(c, "_accumulate_tensor")
    oa = [n for n in f.body_nodes() if isinstance(n, ast.Assign) and astq.is_name(n.targets[0], "other_axes")]
    ok = len(oa) == 1 and astq.eq_text(oa[0].value, "tuple((idxforidxinrange(len(tensor.shape))ifidx!=axis%len(tensor.shape)))")
    ctx.check(ok, R, f, oa[0] if oa else MISSING(f.node), "other_axes are all axes but the (normalised) coefficient axis")


def appliers(ctx, R="R-C16-apply"):
    prog = ctx.prog
    c = _std(prog)
    st = S.sym("self._stats")

    def g(*idx):
        return S.call("getitem", st, S.call("tuple", *idx))

    count = g(S.ZERO, S.lift(-1))
    sums = g(S.ZERO, S.call("slice", S.NONE, S.lift(-1), S.NONE))
    sq = g(S.ONE, S.call("slice", S.NONE, S.lift(-1), S.NONE))
    mean_w = S.truediv(sums, count)
    var_w = S.sub(S.truediv(sq, count), S.power(mean_w, S.lift(2)))
    for name in ("_apply_vector", "_apply_tensor"):
        f = prog.own_method(c, name)
        for nv in (True, False):
            ev = SymEval(prog, f, seed={"self._norm_var": nv, "in_place": False}, inline_props=False).run()
            have = [n for n in f.body_nodes() if isinstance(n, ast.If) and astq.text(n.test) == "self.have_stats"]
            ctx.need(len(have) == 1, R, "`if self.have_stats` not found in %s" % name)
            evb = cc.body_eval(prog, f, have[0].body, seed={"self._norm_var": nv}, inline_self=True)
            m, v_ = evb.env.get("means"), evb.env.get("varss")
            if m is None:
                raise AnalysisError("%s: `means` is not computed in the have_stats branch of %s; idiom not modelled" % (R, name))
            ctx.check(m is not None and S.compare(m, mean_w, domain={})["verdict"] == "equal", R, f, have[0],
                      "%s (norm_var=%s): mean = sums / count" % (name, nv), "mean is %s" % (S.show(m) if m is not None else None))
            if nv or name.endswith("tensor"):
                # variance before zero replacement
                va = [n for n in ast.walk(have[0]) if isinstance(n, ast.Assign) and astq.is_name(n.targets[0], "varss") and evb.reached(n)]
                vv = evb.eval_at(va[0], va[0].value) if va else None
                ctx.check(vv is not None and S.compare(vv, var_w, domain={})["verdict"] == "equal", R, f, have[0],
                          "%s (norm_var=%s): variance = squares / count - mean^2" % (name, nv), "variance is %s" % (S.show(vv) if vv is not None else None))
        # x * scale - mean * scale, scale = 1/sqrt(var) iff norm_var, zero variances replaced before the division
        arr = f.params[1]
        augs = [n for n in f.body_nodes() if isinstance(n, ast.AugAssign) and astq.is_name(n.target, arr)]
        ops = [(type(n.op).__name__, astq.text(n.value).replace(" ", "")) for n in augs]
        if name.endswith("vector"):
            ok = ops == [("Mult", "scales"), ("Sub", "means*scales")]
        else:
            ok = ops == [("Mult", "scales[tensor_slice]"), ("Sub", "(means*scales)[tensor_slice]")]
        ctx.check(ok, R, f, augs[0] if augs else MISSING(f.node), "%s applies x * scale - mean * scale" % name, "%s applies %s" % (name, ops))
        sc = [n for n in f.body_nodes() if isinstance(n, ast.Assign) and astq.is_name(n.targets[0], "scales")]
        pm = astq.parents(f)
        by = {}
        for n in sc:
            gds = [a for a in astq.ancestors(pm, n) if isinstance(a, ast.If) and astq.text(a.test) == "self._norm_var"]
            if gds:
                by["T" if any(x is n for s_ in gds[0].body for x in ast.walk(s_)) else "F"] = astq.text(n.value).replace(" ", "")
        ok = by.get("T") == "1/varss**0.5" and by.get("F") in ("1", "np.ones(1)")
        ctx.check(ok, R, f, sc[0] if sc else MISSING(f.node), "%s divides by the standard deviation iff norm_var" % name, "scales are %s" % by)
        rep = [n for n in f.body_nodes() if isinstance(n, ast.Assign) and astq.eq_text(n.targets[0], "varss[close_zero]")]
        div = [n for n in sc if "varss" in astq.text(n.value)]
        ok = len(rep) == 1 and astq.text(rep[0].value) == "1" and div and rep[0].lineno < div[0].lineno
        ctx.check(ok, R, f, rep[0] if rep else MISSING(f.node), "%s replaces (near-)zero variances by 1 before dividing" % name)
        # float64 result: conversion guard and returns
        conv = [n for n in f.body_nodes() if isinstance(n, ast.Assign) and astq.is_name(n.targets[0], arr) and astq.text(n.value).replace(" ", "") == "%s.astype(np.float64)" % arr]
        ok = len(conv) == 1
        if ok:
            gds = [astq.text(a.test).replace(" ", "") for a in astq.ancestors(pm, conv[0]) if isinstance(a, ast.If)]
            ok = gds == ["notin_placeor%s.dtype!=np.float64" % arr]
        ctx.check(ok, "R-C16-float64", f, conv[0] if conv else MISSING(f.node), "%s works on a float64 copy unless in_place on a float64 array" % name,
                  "%s does not convert under `not in_place or dtype != float64`" % name)
        for r in astq.returns_of(f):
            ctx.check(astq.is_name(r.value, arr), "R-C16-float64", f, r, "%s returns the float64 array it worked on" % name, "%s returns %s" % (name, astq.text(r.value)))
    hs = prog.own_method(c, "have_stats")
    r = astq.returns_of(hs)
    ok = len(r) == 1 and astq.eq_text(r[0].value, "self._statsisnotNoneandself._stats[0,-1]")
    ctx.check(ok, R, hs, r[0] if r else MISSING(hs.node), "have_stats is true iff at least one vector was accumulated (count > 0)")
    ap = prog.own_method(c, "apply")
    rs = astq.returns_of(ap)
    txt = sorted(astq.text(x.value).replace(" ", "") for x in rs)
    ok = txt == sorted(["self._apply_tensor(features,axis,in_place)", "self._apply_vector(features,in_place)"])
    ctx.check(ok, R, ap, ap.node, "apply forwards features, axis and in_place unchanged to the vector / tensor body", "apply returns %s" % txt)


def derived_state(ctx, R="R-C16-derived-state"):
    prog = ctx.prog
    c = _std(prog)
    base = {"_stats", "_norm_var"}
    writers = {}
    for f in c.methods.values():
        for attr, kind, node in attr_writes(f):
            writers.setdefault(attr, []).append((f, kind, node))
    derived = sorted(set(writers) - base)
    stats_writers = sorted({f for f, kind, node in writers.get("_stats", [])}, key=lambda f: f.node.lineno)
    if not derived:
        ctx.ok(R, c.loc(), "Standardize keeps no state besides the statistics matrix and norm_var (nothing derived can go stale)")
        return
    for d in derived:
        for f in stats_writers:
            if f.name == "__init__":
                continue
            ex, per_ret, cfg = must_reinit(prog, f, {d})
            ok = d in ex and all(d in v for v in per_ret.values())
            ctx.check(ok, R, f, f.node, "%s invalidates self.%s whenever it changes the statistics" % (f.name, d),
                      "self.%s is derived from the statistics (written in %s) but %s changes the statistics without resetting it; apply would "
                      "keep using the means/scales of the earlier data" % (d, ", ".join(sorted({w[0].name for w in writers[d]})), f.name))


def dimcheck(ctx, R="R-C16-dimcheck"):
    prog = ctx.prog
    c = _std(prog)
    for name in ("_accumulate_vector", "_accumulate_tensor", "_apply_vector", "_apply_tensor"):
        f = prog.own_method(c, name)
        cfg = CFG(f.node)
        dom = cfg.dominators()
        rs = [r for r in astq.raises_of(f) if astq.raise_type(prog, f, r) == "ValueError"]
        pm = astq.parents(f)
        chk = None
        for r in rs:
            for a in astq.ancestors(pm, r):
                if isinstance(a, ast.If) and "self._stats.shape[1]!=num_coeffs+1" in astq.text(a.test).replace(" ", ""):
                    chk = a
        ctx.check(chk is not None, R, f, f.node, "%s raises ValueError when the coefficient count differs from the stored width - 1" % name,
                  "%s has no ValueError under `self._stats.shape[1] != num_coeffs + 1`" % name)
        if chk is None:
            continue
        nc = cfg.node(chk)
        # the check precedes every += on the statistics and every in-place op on the data
        for n in f.body_nodes():
            if isinstance(n, ast.AugAssign):
                nn = cfg.node(n)
                # the creation branch (stats is None) legitimately bypasses the comparison
                reach_without = cfg.paths_avoiding(CFG.ENTRY, nn, {nc})
                create = [a for a in f.body_nodes() if isinstance(a, ast.If) and astq.text(a.test) == "self._stats is None"]
                ok = not reach_without or bool(create)
                ctx.check(ok, R, f, n, "the dimension check precedes this update", "an update can run before the dimension check")
        nm = [n for n in f.body_nodes() if isinstance(n, ast.Assign) and astq.is_name(n.targets[0], "num_coeffs")]
        want = "len(%s)" % f.params[1] if name.endswith("vector") else "%s.shape[axis]" % f.params[1]
        ctx.check(len(nm) == 1 and astq.text(nm[0].value) == want, R, f, nm[0] if nm else MISSING(f.node), "num_coeffs is the length of the coefficient axis")


def readonly(ctx, R="R-C16-readonly"):
    prog = ctx.prog
    c = _std(prog)
    eff = Effects(prog, flag="in_place")
    f = prog.own_method(c, "apply")
    ws, _ = eff.writes_to(f, f.params[1])
    bad = [w for w in ws if False in w.flags]
    ctx.check(not bad, R, f, bad[0].stmt if bad else f.node, "apply writes through its input only when in_place is true",
              "Standardize.apply can modify the caller's array with in_place=False (%s)" % ", ".join(sorted({w.how for w in bad})))
    ctx.check(len(ws) >= 1, R, f, f.node, "in_place=True is honoured (the data is standardised in place)")
    acc = prog.own_method(c, "accumulate")
    eff2 = Effects(prog)
    ws, _ = eff2.writes_to(acc, acc.params[1])
    ctx.check(not ws, R, acc, ws[0].stmt if ws else acc.node, "accumulate never writes to the data it is given",
              "accumulate can modify the caller's array (%s)" % ", ".join(sorted({w.how for w in ws})))
