"""C10 - signals-to-torch-feat-dir survives kill/resume and parallelism unchanged.

Crash points cannot be enumerated statically; the property's mechanism is an
ordering / durability / provenance discipline decidable on the CFG (DESIGN §3 C10).
"""

import ast

from .. import astq
from ..cfg import CFG, walk_no_defs, header_walk
from ..dataflow import ReachingDefs, containing_node
from ..model import AnalysisError, ClassInfo, FunctionInfo
from . import cli_common as cc

LEVEL = "other"
TECHNIQUE = ("CFG dominance / must-pass-through rules (save before acknowledge, flush after acknowledge, "
             "filter before work, reseed first) and a flow-sensitive taint analysis of the per-item seed "
             "(manifest-filtered membership -> position) across the tool function and the dataset class")
EXPLANATION = (
    "Decides on the source of signals_to_torch_feat_dir and _FeatureProcessorDataset: torch.save of an utterance "
    "dominates the manifest line for the same id; every manifest write is flushed before the next iteration and "
    "before function exit (or the stream is line-buffered); the manifest is opened for appending, rewound and read "
    "before the dataset is built, its ids are removed from the work map and never re-added; the argument of "
    "torch.manual_seed depends on the base seed and the utterance's identity but on no value derived from the "
    "position in / size or order of a collection whose membership was filtered by the manifest; the re-seeding "
    "dominates every pre-processor call; the DataLoader preserves order (no shuffle/sampler/batching) and forwards "
    "only num_workers. Does NOT decide atomicity of torch.save itself or OS-level durability (fsync), and "
    "enumerates no actual kill points.")

MUTATORS_ADD = {"add", "append", "update", "setdefault", "extend", "insert", "__setitem__"}
MUTATORS_DEL = {"pop", "remove", "discard", "popitem", "__delitem__", "clear"}


def run(ctx):
    prog = ctx.prog
    tool = prog.func("command_line.signals_to_torch_feat_dir")
    cfg = CFG(tool.node)
    ctx.rule(membership_over_text, tool)
    info = manifest_sites(ctx, tool, cfg)  # anchors: an AnalysisError here aborts the whole check (exit 2)
    ctx.rule(save_before_ack, tool, cfg, info)
    ctx.rule(acknowledged_kept, tool, cfg, info)
    ctx.rule(durable_ack, tool, cfg, info)
    ctx.rule(filter_before_work, tool, cfg, info)
    ctx.rule(cc.manifest_filter, "R-C10-manifest-exact", tool)
    ctx.rule(seed_identity, tool, cfg, info)
    ctx.rule(cc.base_seed, "R-C10-base-seed", tool, prog.cls("command_line._FeatureProcessorDataset"))
    ctx.rule(cc.seed_inputs_deterministic, "R-C10-seed-process-independent", tool, prog.cls("command_line._FeatureProcessorDataset"))
    ctx.rule(reseed_first)
    ctx.rule(order, tool)
    ctx.rule(computer_reuse)
    ctx.rule(items_independent)
    ctx.rule(outputs_never_read, tool)


def membership_over_text(ctx, tool, R="R-C10-manifest-exact"):
    """`utt in <text of a file>` is a substring test: an utterance whose id occurs inside a listed id (utt1 in utt12) counts as
    done although it never was.  The text a `.read()` returns has to be split into lines before ids are looked up in it."""
    what = "utterances are looked up among the manifest's lines, not inside its text"

    def text_valued(e, depth=0):
        if depth > 4:
            return None
        if isinstance(e, ast.Call) and isinstance(e.func, ast.Attribute):
            if e.func.attr in ("read", "read_text") and not e.args:
                return e
            if e.func.attr in ("strip", "rstrip", "lstrip", "lower", "upper", "decode", "replace"):
                return text_valued(e.func.value, depth + 1)
        if isinstance(e, ast.Name):
            vals = [n.value for n in tool.body_nodes() if isinstance(n, ast.Assign) and any(astq.is_name(t, e.id) for t in n.targets)]
            vals += [n.value for n in tool.body_nodes() if isinstance(n, ast.AugAssign) and astq.is_name(n.target, e.id)]
            hits = [text_valued(v, depth + 1) for v in vals]
            if vals and all(h is not None for h in hits):
                return hits[0]
        return None
    n = 0
    for c in tool.body_nodes():
        if isinstance(c, ast.Compare) and len(c.ops) == 1 and isinstance(c.ops[0], (ast.In, ast.NotIn)):
            n += 1
            src = text_valued(c.comparators[0])
            if src is not None:
                ctx.bad(R, tool, c, "`%s` looks the left operand up inside the text returned by `%s`: a substring test, so an utterance whose id occurs inside "
                        "another listed id (utt1 in utt12, 7 in spk7-a) is taken as already done and silently skipped on resume"
                        % (astq.text(c)[:60], astq.text(src)[:50]), what, robust=True)
    ctx.ok(R, tool.loc(), what, "%d membership test(s) inspected" % n)


def computer_reuse(ctx, R="R-C10-seed-process-independent"):
    """The tool builds one frame computer per process and re-uses it for every utterance that process handles; which utterances
    share a computer depends on --num-workers and on where a run was interrupted.  The output is independent of both only if a
    computer keeps nothing from one utterance to the next: the reset rule of the frame computers (C04) is a premise of this
    property and is re-established here for both computer classes."""
    from . import c04
    prog = ctx.prog
    for cname in ("compute.ShortTimeFourierTransformFrameComputer", "compute.ShortIntegrationFrameComputer"):
        c04.reset(ctx, prog.cls(cname), R)


def items_independent(ctx, R="R-C10-seed-process-independent"):
    """Which utterances one dataset object serves depends on --num-workers (each worker has its own copy) and on what a resumed
    run has left to do.  An item is the same whatever was served before it only if serving an item leaves the dataset's own
    fields alone: a store to ``self.<field>`` in ``__getitem__`` (or a method it calls on itself) is state that leaks from one
    utterance into the next one handled by the same process."""
    from . import c04
    prog = ctx.prog
    ds = prog.cls("command_line._FeatureProcessorDataset")
    gi = prog.find_method(ds, "__getitem__")
    ctx.need(gi is not None, R, "_FeatureProcessorDataset.__getitem__ not found")
    what = "serving an utterance does not change the dataset object (items do not depend on which items the same process served before)"
    n = 0
    for g in c04.closure(prog, gi):
        if g.name == "__init__":
            continue
        for attr, kind, node in c04.attr_writes(g):
            n += 1
            ctx.bad(R, g, node, "%s stores to self.%s while an utterance is served: the next utterance handled by the same process sees the new value, so its "
                    "result depends on how --num-workers (or a resumed run) grouped the utterances" % (g.short, attr), what, robust=True)
    if not n:
        ctx.ok(R, gi.loc(), what, "%d method(s) inspected, no store to the object's fields" % len(c04.closure(prog, gi)))


_READS = {"torch.load", "numpy.load", "numpy.fromfile", "pickle.load", "pydrobert.speech.util.read_signal", "numpy.loadtxt", "numpy.memmap"}
_PATH_ONLY = {"os.path.join", "os.path.abspath", "os.path.normpath", "os.path.realpath", "os.fspath", "str", "pathlib.Path", "os.path.expanduser"}


def outputs_never_read(ctx, tool, R="R-C10-filter-before-work"):
    """A feature file that is on disk but not listed in the manifest is what an interrupted write leaves behind: it may be empty or
    cut short.  Recovery replaces it; anything that first reads it back (to compare, to validate) fails on exactly the files
    recovery exists for, and fails again on every re-run.  Effect rule: no deserialising call in the tool takes a path built from
    the output directory, unless a handler that catches its failure surrounds it."""
    prog = ctx.prog
    what = "feature files left in the output directory are replaced, never read back"
    tainted = set()

    def mentions(e):
        for x in ast.walk(e):
            if isinstance(x, ast.Attribute) and x.attr == "dir" and astq.is_name(x.value, "options"):
                return True
            if isinstance(x, ast.Name) and x.id in tainted:
                return True
        return False
    changed = True
    while changed:
        changed = False
        for n in tool.body_nodes():
            tg = []
            if isinstance(n, ast.Assign) and mentions(n.value):
                tg = [x for t in n.targets for x in astq.flatten_targets(t)]
            elif isinstance(n, (ast.For, ast.comprehension)) and mentions(n.iter):
                tg = astq.flatten_targets(n.target)
            elif isinstance(n, ast.NamedExpr) and mentions(n.value):
                tg = [n.target]
            elif isinstance(n, ast.withitem) and n.optional_vars is not None and mentions(n.context_expr):
                tg = astq.flatten_targets(n.optional_vars)
            for t in tg:
                if isinstance(t, ast.Name) and t.id not in tainted:
                    tainted.add(t.id)
                    changed = True
    pm = astq.parents(tool)
    n_calls = 0
    for c in astq.func_calls(tool):
        q = prog.qualify(tool.module, c.func, tool)
        is_read = q in _READS
        if q == "open" or (q is None and astq.is_name(c.func, "open")):
            mode = c.args[1] if len(c.args) > 1 else astq.kw(c, "mode")
            is_read = mode is None or (isinstance(mode, ast.Constant) and isinstance(mode.value, str) and not set(mode.value) & set("wxa"))
        if isinstance(c.func, ast.Attribute) and c.func.attr in ("read_bytes", "read_text") and mentions(c.func.value):
            is_read = True
        if not is_read:
            continue
        n_calls += 1
        args = list(c.args) + [k.value for k in c.keywords] + ([c.func.value] if isinstance(c.func, ast.Attribute) and c.func.attr.startswith("read_") else [])
        if not any(mentions(a) for a in args):
            continue
        guarded = False
        for a in astq.ancestors(pm, c):
            if isinstance(a, ast.Try) and any(c in list(ast.walk(st)) for st in a.body):
                for h in a.handlers:
                    names = [] if h.type is None else [astq.text(x) for x in (h.type.elts if isinstance(h.type, ast.Tuple) else [h.type])]
                    if h.type is None or any(x in ("Exception", "BaseException") for x in names):
                        if not any(isinstance(x, ast.Raise) for st in h.body for x in ast.walk(st)):
                            guarded = True
        if guarded:
            continue
        ctx.bad(R, tool, c, "`%s` reads a file of the output directory back; a file left there by an interrupted write is cut short, the call raises on it, and "
                "the re-run that should replace it stops at that utterance every time" % astq.text(c)[:80], what, robust=True)
    ctx.ok(R, tool.loc(), what, "%d reading call(s) inspected; names carrying an output path: %s" % (n_calls, ", ".join(sorted(tainted)) or "none"))


def _is_manifest(n):
    return isinstance(n, ast.Attribute) and n.attr == "manifest" and isinstance(n.value, ast.Name) and n.value.id == "options"


def _mentions_manifest(node):
    return any(_is_manifest(x) for x in ast.walk(node))


def manifest_sites(ctx, tool, cfg):
    prog = ctx.prog
    R = "R-C10-sites"
    def _over_loader(n):
        it = n.iter
        if isinstance(it, ast.Call) and astq.is_name(it.func, "enumerate") and it.args:
            it = it.args[0]  # for k, (...) in enumerate(loader[, start]): the same traversal, counted
        return astq.is_name(it, "loader")
    loops = cc.find_loop_over(tool, _over_loader)
    ctx.need(len(loops) == 1, R, "writer loop over the DataLoader not found")
    loop = loops[0]
    saves = [c for c in astq.calls_in(loop) if prog.qualify(tool.module, c.func, tool) == "torch.save"]
    ctx.need(len(saves) == 1, R, "torch.save not found in the writer loop")
    writes = []
    for c in astq.func_calls(tool):
        if astq.is_name(c.func, "print"):
            f = astq.kw(c, "file")
            if f is not None and _is_manifest(f):
                writes.append(c)
        elif isinstance(c.func, ast.Attribute) and c.func.attr in ("write", "writelines") and _is_manifest(c.func.value):
            writes.append(c)
    ctx.need(len(writes) >= 1, R, "no write to options.manifest found")
    flushes = [c for c in astq.func_calls(tool) if isinstance(c.func, ast.Attribute) and c.func.attr == "flush" and _is_manifest(c.func.value)]
    sites = [c for c in astq.func_calls(tool) if isinstance(prog.resolve(tool.module, c.func, tool), ClassInfo)
             and prog.resolve(tool.module, c.func, tool).name == "_FeatureProcessorDataset"]
    ctx.need(len(sites) == 1, R, "construction of _FeatureProcessorDataset not found")
    return {"loop": loop, "save": saves[0], "writes": writes, "flushes": flushes, "site": sites[0]}


# ------------------------------------------------------- R-C10-save-before-ack
def _names_via_defs(rd, cfg, tool, at, expr, depth=0, seen=None):
    """{name: frozenset of reaching definitions} for every name the value of ``expr`` (evaluated at cfg node ``at``)
    is computed from, followed through plain assignments."""
    out = {}
    seen = seen if seen is not None else set()
    for x in ast.walk(expr):
        if isinstance(x, ast.Name) and isinstance(x.ctx, ast.Load):
            defs = rd.reaching(at, x.id)
            key = frozenset((d.node, d.kind) for d in defs)
            out.setdefault(x.id, key)
            if depth < 4:
                for d in defs:
                    val = d.value
                    if val is None and d.kind == "assign" and isinstance(getattr(d, "stmt", None), ast.Assign):
                        val = d.stmt.value  # tuple unpacking: every target is computed from the whole right-hand side
                    if d.kind == "assign" and val is not None and (d.node, x.id) not in seen:
                        seen.add((d.node, x.id))
                        for k, v in _names_via_defs(rd, cfg, tool, d.node, val, depth + 1, seen).items():
                            out.setdefault(k, v)
    return out


def save_before_ack(ctx, tool, cfg, info):
    prog = ctx.prog
    R = "R-C10-save-before-ack"
    dom = cfg.dominators()
    rd = ReachingDefs(tool, cfg)
    ns = containing_node(cfg, tool, info["save"])
    loop_nodes = cfg.loops[cfg.node(info["loop"])]
    # where does the feature file appear under its final name?  torch.save(feat, <final path>) itself, or the
    # os.replace / os.rename that moves a scratch file into place (atomic-write idiom)
    commits = []
    if len(info["save"].args) > 1:
        commits.append((ns, info["save"].args[1], info["save"]))
    for c in astq.func_calls(tool):
        q = prog.qualify(tool.module, c.func, tool) or ""
        if q in ("os.replace", "os.rename", "shutil.move") and len(c.args) == 2:
            nc = containing_node(cfg, tool, c)
            if nc in loop_nodes and ns in dom.get(nc, ()):
                commits.append((nc, c.args[1], c))
    for w in info["writes"]:
        nw = containing_node(cfg, tool, w)
        ctx.check(nw in loop_nodes and ns in loop_nodes, R, tool, w, "the acknowledgement is written inside the writer loop, per utterance",
                  "a manifest write is outside the per-utterance writer loop")
        ctx.check(ns in dom.get(nw, ()), R, tool, w, "torch.save dominates the manifest write",
                  "a manifest line can be written on a path that has not saved the feature file first")
        # same utterance: the id printed reaches the final file name with the same definitions
        names_w = [x.id for a in w.args for x in ast.walk(a) if isinstance(x, ast.Name)]
        ctx.need(names_w, R, "cannot find what is written to the manifest")
        for nm in names_w:
            dw = frozenset((d.node, d.kind) for d in rd.reaching(nw, nm))
            ok = False
            for nc, dest, call in commits:
                via = _names_via_defs(rd, cfg, tool, nc, dest)
                if nm in via and via[nm] == dw and dw and nc in dom.get(nw, ()):
                    ok = True
            ctx.check(ok, R, tool, w, "the id acknowledged is the id in the name of the file that was just saved",
                      "the manifest records `%s`, but no save / move into place that dominates the write names its file after that same id" % nm)
    ctx.ok(R, tool.loc(info["save"]), "1 save site, %d commit site(s), %d manifest write site(s) analysed" % (len(commits), len(info["writes"])))


# ------------------------------------------------------- R-C10-acknowledged-kept
REMOVERS = {"os.remove", "os.unlink", "os.rmdir", "shutil.rmtree", "os.truncate"}


def acknowledged_kept(ctx, tool, cfg, info):
    """Once an utterance is acknowledged its file is never removed: no deletion of a path that may still be the
    path of an acknowledged utterance (reaching definition of the path variable unchanged since the manifest write)."""
    prog = ctx.prog
    R = "R-C10-acknowledged-kept"
    rd = ReachingDefs(tool, cfg)
    nws = [containing_node(cfg, tool, w) for w in info["writes"]]
    ns = containing_node(cfg, tool, info["save"])
    save_names = _names_via_defs(rd, cfg, tool, ns, info["save"].args[1]) if len(info["save"].args) > 1 else {}
    n = 0
    for c in astq.func_calls(tool):
        q = prog.qualify(tool.module, c.func, tool) or ""
        is_method_rm = isinstance(c.func, ast.Attribute) and c.func.attr in ("unlink", "rmdir") and q not in REMOVERS
        if q not in REMOVERS and not is_method_rm:
            continue
        n += 1
        nc = containing_node(cfg, tool, c)
        target = c.args[0] if c.args else (c.func.value if is_method_rm else None)
        if target is None:
            continue
        tn = _names_via_defs(rd, cfg, tool, nc, target)
        # does the removed path share a definition with the path that was saved and then acknowledged?
        shared = [nm for nm, defs in tn.items() if nm in save_names and defs & save_names[nm] and nm not in ("options", "os")]
        reach = any(nc in cfg.reachable(nw) for nw in nws)
        if shared and reach:
            ctx.bad(R, tool, c, "%s can delete the file of an utterance that is already acknowledged: `%s` still holds the path saved for the last "
                    "acknowledged utterance when this statement is reached after the manifest write (e.g. an interrupt while the next "
                    "utterance is computed); the manifest then lists an utterance whose file is gone and a resumed run never recreates it"
                    % (astq.text(c)[:60], ", ".join(sorted(shared))), "acknowledged files are never removed")
        else:
            ctx.ok(R, tool.loc(c), "%s cannot name an acknowledged utterance's file" % astq.text(c)[:60])
    ctx.ok(R, tool.loc(), "%d file-removal call(s) examined" % n)
    # no randomly named files in the output directory (a hard kill would leave them behind for good)
    for c in astq.func_calls(tool):
        q = prog.qualify(tool.module, c.func, tool) or ""
        if q.startswith("tempfile."):
            d = astq.kw(c, "dir")
            in_out_dir = d is not None and any(isinstance(x, ast.Attribute) and x.attr == "dir" and astq.is_name(x.value, "options") for x in ast.walk(d))
            if d is not None and not in_out_dir and not (isinstance(d, ast.Constant)):
                # the directory computed from other values: follow them back (os.path.split of the final path, a local alias ...)
                try:
                    via = _names_via_defs(rd, cfg, tool, containing_node(cfg, tool, c), d)
                    in_out_dir = "options" in via or any(nm in save_names for nm in via)
                except Exception:
                    in_out_dir = False
            if in_out_dir:
                ctx.bad(R, tool, c, "%s creates a randomly named file inside the output directory: a hard kill before it is moved into place or removed "
                        "leaves it there for good, so the directory after a resume is not identical to that of an uninterrupted run" % astq.text(c)[:50],
                        "only files named after utterances are created in the output directory")


# ---------------------------------------------------------- R-C10-durable-ack
def durable_ack(ctx, tool, cfg, info):
    prog = ctx.prog
    R = "R-C10-durable-ack"
    # stream-level idiom: line-buffered / unbuffered FileType
    pf = prog.func("command_line._signals_to_torch_feat_dir_parse_args")
    dests = cc.parser_dests(prog, pf)
    decl = dests.get("manifest")
    ctx.need(decl is not None, R, "--manifest is no longer declared")
    t = astq.kw(decl, "type")
    mode, buf = None, None
    if isinstance(t, ast.Call) and prog.qualify(pf.module, t.func, pf) == "argparse.FileType":
        if t.args:
            mode = astq.const_str(t.args[0])
        if len(t.args) > 1 and isinstance(t.args[1], ast.Constant):
            buf = t.args[1].value
        b = astq.kw(t, "bufsize")
        if isinstance(b, ast.Constant):
            buf = b.value
        m = astq.kw(t, "mode")
        if m is not None:
            mode = astq.const_str(m)
    ctx.check(mode is not None and mode.startswith("a"), "R-C10-append-mode", pf, decl,
              "the manifest is opened for appending, so earlier acknowledgements survive a resume",
              "the manifest is opened with mode %r; a resumed run would truncate or fail to extend the record of completed utterances" % (mode,))
    ctx.check(mode is not None and "+" in mode, "R-C10-append-mode", pf, decl,
              "the manifest is opened readable (a+), so the resume can read the completed ids",
              "the manifest is opened with mode %r and cannot be read back on resume" % (mode,))
    line_buffered = buf in (0, 1)
    flush_nodes = {containing_node(cfg, tool, c) for c in info["flushes"]}
    loop_head = cfg.node(info["loop"])
    for w in info["writes"]:
        nw = containing_node(cfg, tool, w)
        fl = astq.kw(w, "flush")
        if isinstance(fl, ast.Constant) and fl.value is True:
            ctx.ok(R, tool.loc(w), "manifest write flushes itself (flush=True)")
            continue
        if line_buffered:
            ctx.ok(R, tool.loc(w), "manifest stream is line-/un-buffered (FileType bufsize=%r)" % buf)
            continue
        escapes = []
        for target, what in ((loop_head, "the next iteration starts"), (CFG.EXIT, "the function returns")):
            if cfg.paths_avoiding(nw, target, flush_nodes - {nw}):
                escapes.append(what)
        ctx.check(not escapes, R, tool, w, "every manifest write is followed by a flush before the next iteration / exit",
                  "the manifest line is still in the text buffer when %s: a hard kill after later utterances loses "
                  "recorded progress (the file then lists fewer utterances than were completed)" % " and when ".join(escapes))


# ----------------------------------------------------- R-C10-filter-before-work
def filter_before_work(ctx, tool, cfg, info):
    R = "R-C10-filter-before-work"
    dom = cfg.dominators()
    nsite = containing_node(cfg, tool, info["site"])
    # manifest reads: for-loops or comprehensions iterating options.manifest
    reads = []
    for n, st in cfg.stmt.items():
        if st is None:
            continue
        if isinstance(st, ast.For) and _is_manifest(st.iter):
            reads.append(n)
        else:
            for x in header_walk(st):
                if isinstance(x, ast.comprehension) and _is_manifest(x.iter):
                    reads.append(n)
                elif (isinstance(x, ast.Call) and isinstance(x.func, ast.Attribute) and x.func.attr in ("read", "readlines", "readline")
                      and _is_manifest(x.func.value)):
                    reads.append(n)
                elif isinstance(x, ast.Call) and isinstance(x.func, ast.Name) and x.func.id in ("set", "list", "tuple", "frozenset", "map") and any(_is_manifest(a) for a in x.args):
                    reads.append(n)
    reads = sorted(set(reads))
    ctx.need(reads, R, "the manifest is never read (no iteration over / read of options.manifest)")
    pm = astq.parents(tool)
    for n in reads:
        st = cfg.stmt[n]
        guards = [a for a in astq.ancestors(pm, st) if isinstance(a, ast.If)]
        ok = len(guards) == 1 and astq.text(guards[0].test) == "options.manifest is not None"
        ctx.check(ok, R, tool, st, "the manifest is read exactly when one is given",
                  "the manifest read is guarded by %s" % [astq.text(g.test) for g in guards])
        if ok:
            ng = cfg.node(guards[0])
            ctx.check(ng in dom.get(nsite, ()), R, tool, st, "the manifest is consulted before the dataset is built, on every path",
                      "the dataset can be built without first consulting the manifest")
        # rewind before reading (the stream is opened at its end in append mode)
        seeks = [c for c in astq.func_calls(tool) if isinstance(c.func, ast.Attribute) and c.func.attr == "seek" and _is_manifest(c.func.value)
                 and c.args and isinstance(c.args[0], ast.Constant) and c.args[0].value == 0]
        sn = {containing_node(cfg, tool, c) for c in seeks}
        ctx.check(any(s in dom.get(n, ()) for s in sn), R, tool, st, "the manifest is rewound (seek(0)) before it is read",
                  "the append-mode manifest is read without seek(0): nothing would be read and every utterance recomputed")
    # membership of the work map handed to the dataset depends on the manifest
    taint = Taint(ctx.prog, tool, cfg)
    work = info["site"].args[0] if info["site"].args else None
    ctx.need(isinstance(work, ast.Name), R, "first argument of the dataset is not a plain work-map name")
    st_in = taint.state_at(nsite)
    ctx.check(work.id in st_in[1], R, tool, astq.enclosing_stmt(pm, info["site"]),
              "ids listed in the manifest are removed from (or never enter) the work map given to the dataset",
              "the work map `%s` handed to the dataset does not depend on the manifest: listed utterances would be recomputed and rewritten" % work.id)
    # nothing re-adds entries after the filter
    for n in reads:
        after = cfg.reachable(n)
        for m in after:
            D_m, M_m = taint.state_at(m)
            if taint._tainted_control(m, set(D_m), set(M_m)):
                continue  # insertion is itself conditional on the manifest (skip-at-insert idiom)
            stm = cfg.stmt[m]
            if stm is None or m in (cfg.loops.get(n) or set()) or m == n:
                continue
            for x in header_walk(stm):
                if isinstance(x, ast.Call) and isinstance(x.func, ast.Attribute) and x.func.attr in MUTATORS_ADD and astq.is_name(x.func.value, work.id):
                    ctx.bad(R, tool, stm, "entries are added to the work map after the manifest was applied", "nothing re-adds filtered ids")
            if isinstance(stm, ast.Assign):
                for t in stm.targets:
                    if isinstance(t, ast.Subscript) and astq.is_name(t.value, work.id) and m not in _nodes_before(cfg, n):
                        if _strictly_after(cfg, n, m):
                            ctx.bad(R, tool, stm, "entries are added to the work map after the manifest was applied", "nothing re-adds filtered ids")
    ctx.ok(R, tool.loc(), "no insertion into the work map after the manifest filter")


def _nodes_before(cfg, n):
    return set()


def _strictly_after(cfg, n, m):
    """m reachable from the exit of the read loop n but n not reachable from m (not in a common loop)."""
    return n not in cfg.reachable(m)


class Taint:
    """Flow-sensitive may-taint over the tool function.

    D: names holding data read from the manifest.
    M: names whose *membership / order / size* depends on the manifest (a collection
       from which manifest ids were removed, into which insertion is control-dependent
       on manifest data, or anything computed by iterating / enumerating / measuring
       such a collection)."""

    def __init__(self, prog, f, cfg):
        self.prog, self.f, self.cfg = prog, f, cfg
        self.cd = cfg.control_deps()
        # live views and plain aliases of a collection follow it: `order = d.keys()` (not list(d)) sees every later d.pop(...)
        self.alias = {}
        for n_ in f.body_nodes():
            if isinstance(n_, ast.Assign) and len(n_.targets) == 1 and isinstance(n_.targets[0], ast.Name):
                v_ = n_.value
                if isinstance(v_, ast.Call) and isinstance(v_.func, ast.Attribute) and v_.func.attr in ("keys", "values", "items") and not v_.args \
                        and isinstance(v_.func.value, ast.Name):
                    self.alias.setdefault(n_.targets[0].id, set()).add(v_.func.value.id)
                elif isinstance(v_, ast.Name):
                    self.alias.setdefault(n_.targets[0].id, set()).add(v_.id)
        init = (frozenset(), frozenset())
        self.instate, self.outstate = cfg.forward(init, self.transfer, self.join)

    @staticmethod
    def join(a, b):
        return (a[0] | b[0], a[1] | b[1])

    def state_at(self, n):
        return self.instate.get(n, (frozenset(), frozenset()))

    def _dt(self, node, D):
        for x in ast.walk(node):
            if isinstance(x, ast.Name) and x.id in D:
                return True
            if _is_manifest(x):
                # `options.manifest is None` style tests are not data
                return True
        return False

    def _mt(self, node, M):
        return any(isinstance(x, ast.Name) and x.id in M for x in ast.walk(node))

    def _tainted_control(self, n, D, M):
        for b in self.cd.get(n, ()):
            st = self.cfg.stmt[b]
            for e in ([st.test] if isinstance(st, (ast.If, ast.While)) else []):
                if isinstance(e, ast.Compare) and all(isinstance(o, (ast.Is, ast.IsNot)) for o in e.ops):
                    continue
                names = {x.id for x in ast.walk(e) if isinstance(x, ast.Name)}
                if names & D or names & M:
                    return True
        return False

    def transfer(self, n, state):
        D, M = set(state[0]), set(state[1])
        st = self.cfg.stmt[n]
        if st is None:
            return state
        if isinstance(st, (ast.For, ast.AsyncFor)):
            names = [t.id for t in ast.walk(st.target) if isinstance(t, ast.Name)]
            for nm in names:
                (D.add if self._dt(st.iter, D) else D.discard)(nm)
                (M.add if self._mt(st.iter, M) else M.discard)(nm)
            return (frozenset(D), frozenset(M))
        if isinstance(st, ast.Assign):
            tgts = []
            for t in st.targets:
                tgts.extend(astq.flatten_targets(t))
            d, m = self._dt(st.value, D), self._mt(st.value, M)
            for x in ast.walk(st.value):
                # a comprehension filtered on manifest data yields a manifest-dependent membership
                if isinstance(x, ast.comprehension) and any(self._dt(c, D) or self._mt(c, M) for c in x.ifs):
                    m = True
            for t in tgts:
                if isinstance(t, ast.Name):
                    (D.add if d else D.discard)(t.id)
                    (M.add if m else M.discard)(t.id)
                elif isinstance(t, ast.Subscript) and isinstance(t.value, ast.Name):
                    c = t.value.id
                    if self._tainted_control(n, D, M) or self._dt(t.slice, D):
                        M.add(c)
                    if d:
                        D.add(c)
                    if m:
                        M.add(c)
        elif isinstance(st, ast.AugAssign) and isinstance(st.target, ast.Name):
            if self._dt(st.value, D):
                D.add(st.target.id)
            if self._mt(st.value, M):
                M.add(st.target.id)
        elif isinstance(st, ast.Delete):
            for t in st.targets:
                if isinstance(t, ast.Subscript) and isinstance(t.value, ast.Name) and (self._dt(t.slice, D) or self._tainted_control(n, D, M)):
                    M.add(t.value.id)
        for x in header_walk(st):
            if isinstance(x, ast.Call) and isinstance(x.func, ast.Attribute) and isinstance(x.func.value, ast.Name):
                c = x.func.value.id
                argt_d = any(self._dt(a, D) for a in x.args) or any(self._dt(k.value, D) for k in x.keywords)
                argt_m = any(self._mt(a, M) for a in x.args)
                if x.func.attr in MUTATORS_DEL:
                    if argt_d or self._tainted_control(n, D, M):
                        M.add(c)
                elif x.func.attr in MUTATORS_ADD:
                    if argt_d:
                        D.add(c)
                    if argt_m or self._tainted_control(n, D, M):
                        M.add(c)
        for v_, srcs in self.alias.items():
            if srcs & M:
                M.add(v_)
        return (frozenset(D), frozenset(M))


# --------------------------------------------------------- R-C10-seed-identity
def seed_identity(ctx, tool, cfg, info, R="R-C10-seed-identity"):
    prog = ctx.prog
    ds = prog.cls("command_line._FeatureProcessorDataset")
    init = prog.own_method(ds, "__init__")
    g = prog.own_method(ds, "__getitem__")
    site = info["site"]
    nsite = containing_node(cfg, tool, site)
    taint = Taint(prog, tool, cfg)
    D, M = taint.state_at(nsite)
    params = init.params[1:]
    actual = {}
    for p, a in zip(params, site.args):
        actual[p] = a
    for k in site.keywords:
        if k.arg:
            actual[k.arg] = k.value
    param_taint = {p: taint._mt(a, M) for p, a in actual.items()}
    rd_tool = ReachingDefs(tool, cfg)

    def nonnull(a):
        if _never_none(a):
            return True
        if isinstance(a, ast.Name):
            defs = rd_tool.reaching(nsite, a.id)
            return bool(defs) and all(d.kind == "assign" and d.value is not None and _never_none(d.value) for d in defs)
        return False

    param_nonnull = {p: nonnull(a) for p, a in actual.items()}
    ctx.info["seed_taint"] = {"manifest_data": sorted(D), "membership_tainted": sorted(M),
                              "dataset_arguments": {p: astq.text(a) for p, a in actual.items()},
                              "tainted_parameters": sorted(p for p, t in param_taint.items() if t)}
    selfn = init.params[0]
    attr_taint, attr_params = {}, {}
    for n in init.body_nodes():
        if isinstance(n, ast.Assign):
            for t in n.targets:
                for a in astq.flatten_targets(t):
                    if astq.is_self_attr(a, selfn):
                        ps = {x.id for x in ast.walk(n.value) if isinstance(x, ast.Name) and x.id in init.all_param_names()}
                        attr_params[a.attr] = ps
                        attr_taint[a.attr] = any(param_taint.get(p, False) for p in ps)
    gself, gidx = g.params[0], g.params[1]
    gcfg = CFG(g.node)
    rd = ReachingDefs(g, gcfg)
    pm = astq.parents(g)
    # which attribute does the index select from?
    indexed = {x.value.attr for x in g.body_nodes() if isinstance(x, ast.Subscript) and astq.is_self_attr(x.value, gself)
               and astq.is_name(x.slice, gidx)}
    ctx.need(indexed, R, "__getitem__ does not index a self attribute with its index parameter")
    # the collection whose positions the index ranges over: the one __len__ measures
    primary = set()
    ln = ds.methods.get("__len__")
    if ln is not None:
        for c_ in astq.func_calls(ln):
            if astq.is_name(c_.func, "len") and c_.args and astq.is_self_attr(c_.args[0], ln.params[0]):
                primary.add(c_.args[0].attr)
    primary = (primary & indexed) or set(indexed)
    idx_tainted = any(attr_taint.get(a, False) for a in primary)

    def never_none_attr(t):
        """`self.<attr> is None` (or `is not None`) whose attribute is never None given the only construction site -> (attr, op)"""
        if (isinstance(t, ast.Compare) and len(t.ops) == 1 and astq.is_self_attr(t.left, gself)
                and isinstance(t.comparators[0], ast.Constant) and t.comparators[0].value is None):
            ps = attr_params.get(t.left.attr, set())
            if ps and all(param_nonnull.get(p, False) for p in ps):
                return t.left.attr, t.ops[0]
        return None

    def ptaint(node, at, depth=0):
        """reasons why the value of ``node`` (evaluated at cfg node ``at``) depends on manifest-filtered positions"""
        out = []
        if depth > 6:
            return out
        if isinstance(node, ast.IfExp):
            nn = never_none_attr(node.test)
            if nn is not None:
                # `a if self.x is None else b` with x never None: only b is ever evaluated
                live = node.orelse if isinstance(nn[1], ast.Is) else node.body
                return ptaint(live, at, depth + 1)
        skip = set()
        for x in ast.walk(node):
            if isinstance(x, ast.IfExp):
                nn = never_none_attr(x.test)
                if nn is not None:
                    dead = x.body if isinstance(nn[1], ast.Is) else x.orelse
                    for y in ast.walk(dead):
                        skip.add(id(y))
                    for y in ast.walk(x.test):
                        skip.add(id(y))
        for x in ast.walk(node):
            if isinstance(x, ast.Subscript) and astq.is_self_attr(x.value, gself) and astq.is_name(x.slice, gidx):
                if x.value.attr not in primary and id(x) not in skip:
                    # a second collection selected by the position in the first: aligned only if it is built from the same items
                    a = x.value.attr
                    if attr_taint.get(a, False):
                        out.append("self.%s[%s], whose values are computed from the manifest-filtered `%s`"
                                   % (a, gidx, ", ".join(sorted(astq.text(actual[p]) for p in attr_params.get(a, ()) if p in actual and param_taint.get(p)))))
                    elif idx_tainted:
                        out.append("self.%s[%s]: `%s` is a position in self.%s, which holds only the utterances the manifest leaves, while self.%s is built from `%s` "
                                   "(one entry per utterance of the whole map) - the two are aligned only when nothing was skipped"
                                   % (a, gidx, gidx, "/".join(sorted(primary)), a, ", ".join(sorted(astq.text(actual[p]) for p in attr_params.get(a, ()) if p in actual)) or "?"))
                # an *element* of the collection: the utterance's identity / path, not its position
                for y in ast.walk(x):
                    skip.add(id(y))
        for x in ast.walk(node):
            if id(x) in skip:
                continue
            if isinstance(x, ast.Name) and isinstance(x.ctx, ast.Load):
                if x.id == gidx:
                    defs = rd.reaching(at, gidx)
                    if any(d.kind == "param" for d in defs) and idx_tainted:
                        out.append("the index `%s`, a position in self.%s, which is built from the manifest-filtered `%s`"
                                   % (gidx, "/".join(sorted(indexed)), ", ".join(sorted(astq.text(actual[p]) for a in indexed for p in attr_params.get(a, ()) if p in actual))))
                elif x.id != gself:
                    for d in rd.reaching(at, x.id):
                        if d.kind in ("assign", "aug") and d.stmt is not None and d.node != at:
                            v = d.stmt.value
                            out.extend(ptaint(v, d.node, depth + 1))
                        elif d.kind == "for":
                            out.extend(ptaint(d.value, d.node, depth + 1))
            elif isinstance(x, ast.Subscript) and astq.is_self_attr(x.value, gself) and not astq.is_name(x.slice, gidx):
                a = x.value.attr
                if attr_taint.get(a, False):
                    out.append("self.%s[...], whose values are computed from the manifest-filtered `%s`"
                               % (a, ", ".join(sorted(astq.text(actual[p]) for p in attr_params.get(a, ()) if p in actual and param_taint.get(p)))))
            elif astq.is_self_attr(x, gself) and isinstance(pm.get(id(x)), ast.Subscript) is False:
                a = x.attr
                if attr_taint.get(a, False) and a not in indexed:
                    par = pm.get(id(x))
                    if not (isinstance(par, ast.Subscript) and par.value is x):
                        out.append("self.%s, which is computed from a manifest-filtered collection" % a)
        return out

    ms = [c for c in astq.func_calls(g) if prog.qualify(g.module, c.func, g) == "torch.manual_seed"]
    ctx.need(ms, R, "torch.manual_seed not found in __getitem__")
    n_feasible = 0
    for c in ms:
        # feasibility under `self.<attr> is None` guards
        feasible = True
        why = None
        node = c
        for anc in astq.ancestors(pm, c):
            if isinstance(anc, ast.If):
                t = anc.test
                if (isinstance(t, ast.Compare) and len(t.ops) == 1 and astq.is_self_attr(t.left, gself)
                        and isinstance(t.comparators[0], ast.Constant) and t.comparators[0].value is None):
                    attr = t.left.attr
                    in_body = any(x is c for s in anc.body for x in ast.walk(s))
                    needs_none = (isinstance(t.ops[0], ast.Is) and in_body) or (isinstance(t.ops[0], ast.IsNot) and not in_body)
                    ps = attr_params.get(attr, set())
                    if needs_none and ps and all(param_nonnull.get(p, False) for p in ps):
                        feasible = False
                        why = "self.%s is never None: the only construction site passes %s" % (
                            attr, ", ".join(astq.text(actual[p]) for p in ps))
        at = containing_node(gcfg, g, c)
        if not feasible:
            ctx.ok(R, g.loc(c), "seeding branch `%s` is infeasible (%s)" % (astq.text(c), why))
            continue
        n_feasible += 1
        reasons = ptaint(c.args[0], at) if c.args else ["no argument"]
        ctx.check(not reasons, R, g, c,
                  "the per-item seed depends only on the base seed and the utterance's identity",
                  "the per-item seed depends on %s; after a resume that skips a non-empty prefix every remaining utterance "
                  "is seeded differently from an uninterrupted run" % "; ".join(sorted(set(reasons))))
    ctx.floor(R, n_feasible, 1)


def _never_none(a):
    if isinstance(a, (ast.Dict, ast.List, ast.Tuple, ast.Set, ast.DictComp, ast.ListComp, ast.SetComp)):
        return True
    if isinstance(a, ast.Call) and isinstance(a.func, ast.Name) and a.func.id in ("dict", "list", "tuple", "set", "frozenset"):
        return True
    if isinstance(a, ast.Constant) and a.value is not None:
        return True
    return False


# ------------------------------------------------------------ R-C10-reseed-first
def reseed_first(ctx):
    prog = ctx.prog
    R = "R-C10-reseed-first"
    ds = prog.cls("command_line._FeatureProcessorDataset")
    g = prog.own_method(ds, "__getitem__")
    cfg = CFG(g.node)
    ms = [c for c in astq.func_calls(g) if prog.qualify(g.module, c.func, g) == "torch.manual_seed"]
    snodes = {containing_node(cfg, g, c) for c in ms}
    gself = g.params[0]
    loops = [n for n in g.body_nodes() if isinstance(n, ast.For) and astq.is_self_attr(n.iter, gself)]
    ctx.need(loops, R, "no loop over a self attribute (pre-/post-processors) in __getitem__")
    for lp in loops:
        ln = cfg.node(lp)
        ctx.check(not cfg.paths_avoiding(CFG.ENTRY, ln, snodes), R, g, lp,
                  "torch.manual_seed is called before the %s loop on every path" % astq.text(lp.iter),
                  "the loop over %s (which may draw random numbers) can be reached without re-seeding: an item's noise "
                  "would depend on which worker processed what before" % astq.text(lp.iter))
    # any other random draw in the method must also come after the seeding
    for c in astq.func_calls(g):
        q = prog.qualify(g.module, c.func, g) or ""
        if (q.startswith("torch.rand") or q.startswith("numpy.random.")) and c not in ms:
            n = containing_node(cfg, g, c)
            ctx.check(not cfg.paths_avoiding(CFG.ENTRY, n, snodes), R, g, c, "random draw after re-seeding",
                      "random draw %s before the per-item re-seeding" % astq.text(c))


# ------------------------------------------------------------------- R-C10-order
def order(ctx, tool):
    prog = ctx.prog
    R = "R-C10-order"
    dl = [c for c in astq.func_calls(tool) if (prog.qualify(tool.module, c.func, tool) or "").endswith("utils.data.DataLoader")]
    ctx.need(len(dl) == 1, R, "DataLoader construction not found")
    c = dl[0]
    ds_names = [t.id for n in tool.body_nodes() if isinstance(n, ast.Assign) and n.value is astq_site(tool, ctx) for t in n.targets if isinstance(t, ast.Name)]
    ctx.check(len(c.args) == 1 and isinstance(c.args[0], ast.Name) and c.args[0].id in ds_names, R, tool, c,
              "the loader iterates the feature dataset itself", "the DataLoader does not wrap the feature dataset directly")
    allowed = {"num_workers"}
    for k in c.keywords:
        if k.arg == "batch_size" and isinstance(k.value, ast.Constant) and k.value.value in (1, None):
            continue
        if k.arg == "shuffle" and isinstance(k.value, ast.Constant) and k.value.value is False:
            continue
        ctx.check(k.arg in allowed, R, tool, c, "DataLoader option %s does not affect order or grouping" % k.arg,
                  "DataLoader is given `%s=%s`; output order/grouping (and with it the manifest and the per-item results) "
                  "is no longer independent of the run" % (k.arg, astq.text(k.value)))
    nw = astq.kw(c, "num_workers")
    ctx.check(nw is not None and astq.text(nw) == "options.num_workers", R, tool, c, "--num-workers is forwarded",
              "--num-workers is not forwarded to the DataLoader", structural=True)


def astq_site(tool, ctx):
    prog = ctx.prog
    for c in astq.func_calls(tool):
        r = prog.resolve(tool.module, c.func, tool)
        if isinstance(r, ClassInfo) and r.name == "_FeatureProcessorDataset":
            return c
    return None
