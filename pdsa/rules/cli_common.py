"""Shared extraction for the two command-line tools (C09, C10)."""

import ast

from .. import astq
from .. import sym as S
from ..cfg import CFG, walk_no_defs, header_walk
from ..dataflow import ReachingDefs, containing_node
from ..report import MISSING
from ..model import AnalysisError, ClassInfo, FunctionInfo, unparse
from ..symeval import SymEval


def parser_dests(prog, f):
    """argparse declarations of a *_parse_args function: dest -> add_argument call."""
    out = {}
    for c in astq.func_calls(f):
        if astq.attr_call(c, "add_argument") and c.args:
            names = [astq.const_str(a) for a in c.args]
            if any(n is None for n in names):
                raise AnalysisError("non-literal argparse flag in %s" % f.short)
            d = astq.kw(c, "dest")
            if d is not None:
                dest = astq.const_str(d)
            else:
                longs = [n for n in names if n.startswith("--")]
                if longs:
                    dest = longs[0][2:].replace("-", "_")
                elif names[0].startswith("-"):
                    dest = names[0].lstrip("-").replace("-", "_")
                else:
                    dest = names[0]
            out[dest] = c
    return out


def options_reads(f, optname="options"):
    out = []
    for n in f.body_nodes():
        if isinstance(n, ast.Attribute) and isinstance(n.value, ast.Name) and n.value.id == optname:
            out.append(n)
    return out


def find_loop_over(f, pred):
    loops = [n for n in f.body_nodes() if isinstance(n, ast.For) and pred(n)]
    return loops


def body_eval(prog, f, stmts, seed=None, rename=None, inline_self=False, no_inline=()):
    """Forward substitution over a statement list only (outer names stay symbols)."""
    ev = SymEval(prog, f, seed=seed, rename=rename, inline_self=inline_self, no_inline=no_inline)
    ev.env = {}
    try:
        ev.block(stmts)
    except Exception as e:  # pragma: no cover
        raise
    return ev


def _first_cond(e, decided):
    if e.op == "cond" and e.args[0] not in decided:
        return e
    for a in e.args:
        if isinstance(a, S.E):
            r = _first_cond(a, decided)
            if r is not None:
                return r
    return None


def _apply_choices(e, decided):
    if e.op in ("const", "sym", "unknown"):
        return e
    if e.op == "cond" and e.args[0] in decided:
        return _apply_choices(e.args[1] if decided[e.args[0]] else e.args[2], decided)
    return S.E(e.op, *[_apply_choices(a, decided) if isinstance(a, S.E) else a for a in e.args])


def strip_cond(e, decided=None, limit=64):
    """All alternatives of the conditionals occurring anywhere in e (each distinct
    test decided consistently): yields (list of ('T'|'F', test), cond-free expr)."""
    decided = dict(decided or {})
    cur = _apply_choices(e, decided)
    c = _first_cond(cur, decided)
    if c is None:
        yield [("T" if v else "F", _apply_choices(t, decided)) for t, v in decided.items()], cur
        return
    if len(decided) > 8:
        raise AnalysisError("too many nested conditionals in a pipeline expression")
    t = c.args[0]
    for v in (True, False):
        d = dict(decided)
        d[t] = v
        yield from strip_cond(e, d)


def is_call(e, name):
    return e.op == "call" and e.args[0] == name


def list_provenance(prog, f, listname, afs):
    """How a list of processors is built in a tool function: returns
    (family ClassInfo set, options dest set, problems list).  Accepts
    ``L = []`` followed by ``L.append(afs(Family, X))`` with X = options.<dest> or the
    loop variable of a plain ``for X in options.<dest>`` loop."""
    fams, dests, problems = set(), set(), []
    pm = astq.parents(f)
    n_app = 0
    for c in astq.func_calls(f):
        if astq.attr_call(c, "append") and astq.is_name(c.func.value, listname):
            n_app += 1
            a = c.args[0] if c.args else MISSING(None)
            if not (isinstance(a, ast.Call) and prog.resolve(f.module, a.func, f) is afs and len(a.args) == 2):
                problems.append((c, "element appended to %s is not built by alias_factory_subclass_from_arg" % listname))
                continue
            r = prog.resolve(f.module, a.args[0], f)
            if isinstance(r, ClassInfo):
                fams.add(r)
            x = a.args[1]
            if isinstance(x, ast.Attribute) and isinstance(x.value, ast.Name) and x.value.id == "options":
                dests.add(x.attr)
            elif isinstance(x, ast.Name):
                # loop variable of an enclosing plain for over options.<dest>
                found = False
                for anc in astq.ancestors(pm, c):
                    if isinstance(anc, ast.For) and astq.is_name(anc.target, x.id):
                        it = anc.iter
                        if isinstance(it, ast.Attribute) and isinstance(it.value, ast.Name) and it.value.id == "options":
                            dests.add(it.attr)
                            found = True
                        else:
                            problems.append((anc, "configuration list is not iterated in its own order: for %s in %s"
                                             % (x.id, astq.text(it))))
                            found = True
                        break
                if not found:
                    problems.append((c, "cannot tell where %s comes from" % x.id))
            else:
                problems.append((c, "unexpected configuration expression %s" % astq.text(x)))
    return fams, dests, problems, n_app
