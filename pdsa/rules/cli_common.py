"""Shared extraction for the two command-line tools (C09, C10)."""

import ast

from .. import astq
from .. import sym as S
from ..cfg import CFG, walk_no_defs, header_walk
from ..dataflow import ReachingDefs, containing_node
from ..report import MISSING
from ..model import AnalysisError, ClassInfo, FunctionInfo, unparse
from ..symeval import SymEval


def parser_dests(prog, f):
    """argparse declarations of a *_parse_args function: dest -> add_argument call."""
    out = {}
    for c in astq.func_calls(f):
        if astq.attr_call(c, "add_argument") and c.args:
            names = [astq.const_str(a) for a in c.args]
            if any(n is None for n in names):
                raise AnalysisError("non-literal argparse flag in %s" % f.short)
            d = astq.kw(c, "dest")
            if d is not None:
                dest = astq.const_str(d)
            else:
                longs = [n for n in names if n.startswith("--")]
                if longs:
                    dest = longs[0][2:].replace("-", "_")
                elif names[0].startswith("-"):
                    dest = names[0].lstrip("-").replace("-", "_")
                else:
                    dest = names[0]
            out[dest] = c
    return out


def options_reads(f, optname="options"):
    out = []
    for n in f.body_nodes():
        if isinstance(n, ast.Attribute) and isinstance(n.value, ast.Name) and n.value.id == optname:
            out.append(n)
    return out


def find_loop_over(f, pred):
    loops = [n for n in f.body_nodes() if isinstance(n, ast.For) and pred(n)]
    return loops


def body_eval(prog, f, stmts, seed=None, rename=None, inline_self=False, no_inline=()):
    """Forward substitution over a statement list only (outer names stay symbols)."""
    ev = SymEval(prog, f, seed=seed, rename=rename, inline_self=inline_self, no_inline=no_inline)
    ev.env = {}
    try:
        ev.block(stmts)
    except Exception as e:  # pragma: no cover
        raise
    return ev


def _first_cond(e, decided):
    """an undecided conditional whose test is itself free of conditionals (innermost first)"""
    for a in e.args:
        if isinstance(a, S.E):
            r = _first_cond(a, decided)
            if r is not None:
                return r
    if e.op == "cond" and e.args[0] not in decided:
        return e
    return None


def _apply_choices(e, decided):
    if e.op in ("const", "sym", "unknown"):
        return e
    if e.op == "cond":
        t = _apply_choices(e.args[0], decided)
        if t in decided:
            return _apply_choices(e.args[1] if decided[t] else e.args[2], decided)
        if t.is_const:
            return _apply_choices(e.args[1] if S.truthy(t) else e.args[2], decided)
        return S.E("cond", t, _apply_choices(e.args[1], decided), _apply_choices(e.args[2], decided))
    return S.E(e.op, *[_apply_choices(a, decided) if isinstance(a, S.E) else a for a in e.args])


def strip_cond(e, decided=None, limit=64):
    """All alternatives of the conditionals occurring anywhere in e (each distinct
    test decided consistently): yields (list of ('T'|'F', test), cond-free expr)."""
    decided = dict(decided or {})
    cur = _apply_choices(e, decided)
    c = _first_cond(cur, decided)
    if c is None:
        yield [("T" if v else "F", _apply_choices(t, decided)) for t, v in decided.items()], cur
        return
    if len(decided) > 12:
        raise AnalysisError("too many nested conditionals in a pipeline expression")
    t = c.args[0]
    for v in (True, False):
        d = dict(decided)
        d[t] = v
        yield from strip_cond(e, d)


def is_call(e, name):
    return e.op == "call" and e.args[0] == name


def list_provenance(prog, f, listname, afs):
    """How a list of processors is built in a tool function: returns
    (family ClassInfo set, options dest set, problems list).  Accepts
    ``L = []`` followed by ``L.append(afs(Family, X))`` with X = options.<dest> or the
    loop variable of a plain ``for X in options.<dest>`` loop."""
    fams, dests, problems = set(), set(), []
    pm = astq.parents(f)
    n_app = 0
    for c in astq.func_calls(f):
        if astq.attr_call(c, "append") and astq.is_name(c.func.value, listname):
            n_app += 1
            a = c.args[0] if c.args else MISSING(None)
            if not (isinstance(a, ast.Call) and prog.resolve(f.module, a.func, f) is afs and len(a.args) == 2):
                problems.append((c, "element appended to %s is not built by alias_factory_subclass_from_arg" % listname))
                continue
            r = prog.resolve(f.module, a.args[0], f)
            if isinstance(r, ClassInfo):
                fams.add(r)
            x = a.args[1]
            if isinstance(x, ast.Attribute) and isinstance(x.value, ast.Name) and x.value.id == "options":
                dests.add(x.attr)
            elif isinstance(x, ast.Name):
                # loop variable of an enclosing plain for over options.<dest>
                found = False
                for anc in astq.ancestors(pm, c):
                    if isinstance(anc, ast.For) and astq.is_name(anc.target, x.id):
                        it = anc.iter
                        if isinstance(it, ast.Attribute) and isinstance(it.value, ast.Name) and it.value.id == "options":
                            dests.add(it.attr)
                            found = True
                        else:
                            reorders = any(isinstance(y, ast.Call) and isinstance(y.func, ast.Name) and y.func.id in ("reversed", "sorted", "set", "frozenset")
                                           for y in ast.walk(it)) or any(isinstance(y, ast.Slice) and y.step is not None for y in ast.walk(it))
                            mentions_opt = any(isinstance(y, ast.Attribute) and astq.is_name(y.value, "options") for y in ast.walk(it))
                            problems.append((anc, ("DEFINITE: " if (reorders and mentions_opt) else "") +
                                             "configuration list is not iterated in its own order: for %s in %s" % (x.id, astq.text(it))))
                            if mentions_opt:
                                dests.update(y.attr for y in ast.walk(it) if isinstance(y, ast.Attribute) and astq.is_name(y.value, "options"))
                            found = True
                        break
                if not found:
                    problems.append((c, "cannot tell where %s comes from" % x.id))
            else:
                problems.append((c, "unexpected configuration expression %s" % astq.text(x)))
    return fams, dests, problems, n_app


# ------------------------------------------------------------- manifest filter
def _is_manifest(n):
    return isinstance(n, ast.Attribute) and n.attr == "manifest" and isinstance(n.value, ast.Name) and n.value.id == "options"


_STRIPS = {"strip", "rstrip"}
_STR2STR = {"strip", "rstrip", "lstrip", "lower", "upper", "replace", "expandtabs"}


def _mentions_manifest_any(node):
    return any(_is_manifest(x) for x in ast.walk(node))


def manifest_filter(ctx, R, tool):
    """How are the ids listed in the manifest matched against the work map?  Abstract kinds of
    manifest-derived values: TEXT (the whole file as one str), LINE (one raw line, newline attached),
    ID (a stripped line), LINES / IDS (collections of those).  An id may be excluded only by hash /
    equality membership against IDs: `in` on TEXT is a substring test, and raw LINEs never equal an id."""
    env = {}
    dropped = []
    # str.strip / rstrip / lstrip with an argument remove any of the argument's *characters*, not a prefix or suffix: an id
    # that happens to end in one of them is truncated and no longer matches the work map
    for c_ in astq.func_calls(tool):
        if isinstance(c_.func, ast.Attribute) and c_.func.attr in ("strip", "rstrip", "lstrip") and c_.args and not (
                isinstance(c_.args[0], ast.Constant) and isinstance(c_.args[0].value, str) and not c_.args[0].value.strip()):
            pm_ = astq.parents(tool)
            in_manifest_code = any(_mentions_manifest_any(a_) for a_ in astq.ancestors(pm_, c_) if isinstance(a_, (ast.For, ast.With, ast.If)))
            if in_manifest_code:
                ctx.bad(R, tool, c_, "a manifest entry is passed through %s: strip with an argument removes every trailing / leading character that occurs in "
                        "the argument (with the default suffix '.pt' an id such as `spk1_left` becomes `spk1_lef`), so listed utterances are not "
                        "recognised and are computed and written again" % astq.text(c_)[:60], "ids listed in the manifest are matched exactly")

    def kind(e, loc=None):
        loc = loc or {}
        if _is_manifest(e):
            return "FILE"
        if isinstance(e, ast.Name):
            return loc.get(e.id, env.get(e.id))
        if isinstance(e, ast.Call) and isinstance(e.func, ast.Attribute):
            k = kind(e.func.value, loc)
            a = e.func.attr
            if k == "FILE":
                return {"read": "TEXT", "readlines": "LINES", "readline": "LINE"}.get(a, "UNKNOWN")
            if k == "LINE":
                if a in _STRIPS:
                    return "ID"
                return "UNKNOWN" if a in _STR2STR or a in ("split",) else "UNKNOWN"
            if k == "ID":
                return "ID" if a in ("strip", "rstrip", "lstrip") else "UNKNOWN"
            if k == "TEXT":
                if a in ("split", "splitlines"):
                    return "IDS"
                return "TEXT" if a in _STR2STR else "UNKNOWN"
            if k in ("IDS", "LINES"):
                return k if a in ("copy", "union", "keys") else "UNKNOWN"
            if k is None and a == "join" and e.args and kind(e.args[0], loc) in ("LINES", "IDS", "FILE"):
                return "TEXT"
            return None if k is None else "UNKNOWN"
        if isinstance(e, ast.Call) and isinstance(e.func, ast.Name) and e.func.id in ("set", "list", "tuple", "frozenset", "sorted") and len(e.args) == 1:
            k = kind(e.args[0], loc)
            return {"FILE": "LINES", "IDS": "IDS", "LINES": "LINES"}.get(k, None if k is None else "UNKNOWN")
        if isinstance(e, ast.Call) and isinstance(e.func, ast.Name) and e.func.id == "map" and len(e.args) == 2:
            k = kind(e.args[1], loc)
            if k in ("FILE", "LINES") and astq.text(e.args[0]) in ("str.strip", "str.rstrip"):
                return "IDS"
            return None if k is None else "UNKNOWN"
        if isinstance(e, (ast.SetComp, ast.ListComp, ast.GeneratorExp)):
            l2 = dict(loc)
            derived = False
            for g in e.generators:
                k = kind(g.iter, l2)
                ek = {"FILE": "LINE", "LINES": "LINE", "IDS": "ID"}.get(k)
                if k is not None:
                    derived = True
                for t in ast.walk(g.target):
                    if isinstance(t, ast.Name):
                        l2[t.id] = ek if isinstance(g.target, ast.Name) else None
            if not derived:
                return None
            k = kind(e.elt, l2)
            return {"ID": "IDS", "LINE": "LINES"}.get(k, "UNKNOWN")
        if isinstance(e, ast.Subscript):
            k = kind(e.value, loc)
            if k == "LINE" and astq.text(e.slice) == ":-1":
                return "ID"
            if k in ("IDS", "LINES") and isinstance(e.slice, ast.Slice) and not (e.slice.lower is None and e.slice.upper is None):
                # part of the manifest only: the utterances listed in the dropped entries are computed and written again
                dropped.append(e)
                return k
            return None if k is None else "UNKNOWN"
        if isinstance(e, ast.BinOp):
            ks = {kind(e.left, loc), kind(e.right, loc)} - {None}
            return None if not ks else "UNKNOWN"
        return None

    def bind(n):
        if isinstance(n, ast.For):
            k = kind(n.iter)
            for t in ast.walk(n.target):
                if isinstance(t, ast.Name):
                    env[t.id] = {"FILE": "LINE", "LINES": "LINE", "IDS": "ID"}.get(k, None if k is None else "UNKNOWN") if isinstance(n.target, ast.Name) else None
        elif isinstance(n, ast.Expr) and isinstance(n.value, ast.Call) and isinstance(n.value.func, ast.Attribute) and \
                isinstance(n.value.func.value, ast.Name) and n.value.func.attr in ("update", "add", "extend", "append") and len(n.value.args) == 1:
            k = kind(n.value.args[0])
            if k is not None:
                nk = {"IDS": "IDS", "ID": "IDS", "LINES": "LINES", "LINE": "LINES", "FILE": "LINES"}.get(k, "UNKNOWN")
                prev = env.get(n.value.func.value.id)
                env[n.value.func.value.id] = nk if prev in (None, nk) else "UNKNOWN"
        elif isinstance(n, ast.Assign):
            k = kind(n.value)
            for tt in n.targets:
                for t in astq.flatten_targets(tt):
                    if isinstance(t, ast.Name):
                        env[t.id] = k if len(n.targets) == 1 and isinstance(n.targets[0], ast.Name) else (None if k is None else "UNKNOWN")

    WHY = {
        "TEXT": "the whole manifest as one string, so `in` is a substring test: an unfinished utterance whose id occurs inside a finished "
                "one (utt1 / utt10) is dropped and never computed",
        "LINE": "a raw manifest line with its newline attached, which never equals an utterance id: nothing is ever excluded",
        "LINES": "raw manifest lines with their newlines attached, which never equal an utterance id: nothing is ever excluded",
    }
    sites = 0
    pm = astq.parents(tool)

    def local_env(node):
        loc = {}
        for a in reversed(list(astq.ancestors(pm, node))):
            if isinstance(a, (ast.SetComp, ast.ListComp, ast.GeneratorExp, ast.DictComp)):
                for g in a.generators:
                    k = kind(g.iter, loc)
                    for t in ast.walk(g.target):
                        if isinstance(t, ast.Name):
                            loc[t.id] = {"FILE": "LINE", "LINES": "LINE", "IDS": "ID"}.get(k) if isinstance(g.target, ast.Name) else None
        return loc

    def visit(n):
        nonlocal sites
        if isinstance(n, ast.Call) and isinstance(n.func, ast.Attribute) and n.func.attr in ("pop", "discard", "remove", "__delitem__") and n.args:
            k = kind(n.args[0], local_env(n))
            if k is None:
                return
            sites += 1
            if k == "UNKNOWN":
                raise AnalysisError("%s: cannot classify the manifest-derived key in `%s`" % (R, astq.text(n)[:80]))
            ctx.check(k == "ID", R, tool, astq.enclosing_stmt(pm, n), "ids are removed from the work map by exact key (a stripped manifest line)",
                      "the key removed from the work map is %s" % WHY.get(k, k))
            # the removal depends on nothing but the manifest: a listed utterance is never recomputed
            for a in astq.ancestors(pm, n):
                if isinstance(a, ast.If):
                    loc = local_env(a)
                    foreign = []
                    for x in ast.walk(a.test):
                        if isinstance(x, ast.Call):
                            q_ = ctx.prog.qualify(tool.module, x.func, tool) or astq.text(x.func)
                            if not (isinstance(x.func, ast.Attribute) and kind(x.func.value, loc) is not None):
                                foreign.append(q_)
                    if foreign:
                        ctx.bad(R, tool, a, "a listed utterance is removed from the work map only if `%s` holds (%s): whenever it does not, an "
                                "utterance the manifest lists is computed and written again" % (astq.text(a.test)[:80], ", ".join(foreign[:3])),
                                "ids listed in the manifest are excluded unconditionally")
        elif isinstance(n, ast.Delete):
            for t in n.targets:
                if isinstance(t, ast.Subscript):
                    k = kind(t.slice, local_env(n))
                    if k is None:
                        continue
                    sites += 1
                    ctx.check(k == "ID", R, tool, n, "ids are removed from the work map by exact key", "the key deleted is %s" % WHY.get(k, k))
        elif isinstance(n, ast.Compare):
            loc = local_env(n)
            ks = [kind(x, loc) for x in [n.left] + list(n.comparators)]
            if all(k is None or k == "FILE" for k in ks):
                return
            if all(isinstance(o, (ast.Is, ast.IsNot)) for o in n.ops):
                return
            sites += 1
            if len(n.ops) == 1 and isinstance(n.ops[0], (ast.In, ast.NotIn)):
                k = ks[1]
                if k == "UNKNOWN" or k is None:
                    raise AnalysisError("%s: cannot classify the manifest-derived operand of `%s`" % (R, astq.text(n)[:80]))
                ctx.check(k == "IDS" and ks[0] in (None, "ID"), R, tool, astq.enclosing_stmt(pm, n),
                          "membership of an id in the manifest is decided by equality against the set of stripped lines",
                          "`%s` tests membership in %s" % (astq.text(n), WHY.get(k, k)))
            elif len(n.ops) == 1 and isinstance(n.ops[0], (ast.Eq, ast.NotEq)):
                bad = [k for k in ks if k not in (None, "ID")]
                if "UNKNOWN" in bad:
                    raise AnalysisError("%s: cannot classify `%s`" % (R, astq.text(n)[:80]))
                ctx.check(not bad, R, tool, astq.enclosing_stmt(pm, n), "ids are compared with stripped manifest lines",
                          "`%s` compares an id with %s" % (astq.text(n), WHY.get(bad[0], bad[0]) if bad else ""))
            else:
                raise AnalysisError("%s: unrecognised comparison with manifest data `%s`" % (R, astq.text(n)[:80]))
        elif isinstance(n, ast.Call) and isinstance(n.func, ast.Attribute) and n.func.attr in ("startswith", "endswith", "find", "index", "count") and n.args:
            loc = local_env(n)
            if kind(n.args[0], loc) is not None or kind(n.func.value, loc) not in (None, "FILE"):
                sites += 1
                ctx.bad(R, tool, astq.enclosing_stmt(pm, n), "`%s` matches ids against the manifest by prefix / substring instead of equality: "
                        "an unfinished utterance whose id is related to a finished one is dropped" % astq.text(n)[:80], "exact matching")

    def seq(stmts):
        for st in stmts:
            for x in header_walk(st):
                visit(x)
            bind(st)
            for fld in ("body", "orelse", "finalbody"):
                sub = getattr(st, fld, None)
                if isinstance(sub, list) and sub and isinstance(sub[0], ast.stmt) and not isinstance(st, (ast.FunctionDef, ast.ClassDef)):
                    seq(sub)
            for h in getattr(st, "handlers", []) or []:
                seq(h.body)

    seq(tool.node.body)
    for e in dropped[:1]:
        ctx.bad(R, tool, e, "only part of the manifest is honoured (%s): the utterances listed in the entries that are sliced off are computed and written again "
                "on every resume" % astq.text(e)[:60], "ids listed in the manifest are excluded unconditionally", robust=True)
    if sites == 0:
        raise AnalysisError("%s: no site found where manifest ids are matched against the work map" % R)
    ctx.floor(R, sites, 1)


# ------------------------------------------------------------------- base seed
def base_seed(ctx, R, tool, ds_cls):
    """The base seed handed to the dataset is --seed whenever one is given (0 included)."""
    prog = ctx.prog
    init = prog.own_method(ds_cls, "__init__")
    sites = [c for c in astq.func_calls(tool) if prog.resolve(tool.module, c.func, tool) is ds_cls]
    if len(sites) != 1:
        raise AnalysisError("%s: construction site of the dataset not found" % R)
    site = sites[0]
    actual = dict(zip(init.params[1:], site.args))
    actual.update({k.arg: k.value for k in site.keywords if k.arg})
    a = actual.get("seed")
    if a is None:
        raise AnalysisError("%s: the dataset is not given a `seed` argument" % R)
    pm = astq.parents(tool)
    ev = SymEval(prog, tool).run()
    st = astq.enclosing_stmt(pm, site)
    if not ev.reached(st):
        raise AnalysisError("%s: dataset construction not reached by forward substitution" % R)
    e = ev.eval_at(st, a)
    # read attributes of the parsed options as symbols options.<name>
    opts = ev.eval_at(st, ast.parse("options", mode="eval").body)
    sub = {}
    for x in S.walk(e):
        if x.op == "call" and isinstance(x.args[0], str) and x.args[0].startswith(".") and len(x.args) == 2 and x.args[1] == opts:
            sub[x] = S.sym("options" + x.args[0])
    e = S.subst(e, sub) if sub else e
    opt = S.sym("options.seed")
    n = 0
    for tests, leaf in strip_cond(e):
        given = None
        for lbl, t in tests:
            if t.op == "cmp" and t.args[0] in ("is", "is not") and t.args[1] == opt and t.args[2] == S.NONE:
                given = (lbl == "F") if t.args[0] == "is" else (lbl == "T")
        n += 1
        if given is False:
            continue  # no seed given: anything goes
        uses_truth = [x for x in S.walk(leaf) if x.op in ("or", "and") and opt in x.args] or \
            [t for lbl, t in tests if t == opt or (t.op in ("bool", "not") and t.args[0] == opt)]
        if uses_truth:
            ctx.bad(R, tool, st, "the base seed is %s: `--seed 0` is falsy and is treated as if no seed were given, so every invocation draws a fresh "
                    "random base seed and two runs (or a resumed run) differ" % S.show(leaf)[:80], "the base seed is --seed whenever it is given")
            continue
        ctx.check(leaf == opt, R, tool, st, "the base seed is --seed whenever it is given (0 included)",
                  "with --seed given the dataset's base seed is %s, not options.seed" % S.show(leaf)[:100])
    ctx.floor(R, n, 1)


def seed_call_value(ctx, R, tool, call, what="the generator is seeded with --seed whenever it is given (0 included)"):
    """The argument of a seeding call in a tool, read by forward substitution together with the conditions under which the
    call runs: whenever --seed is given (None is the only "not given"; 0 is a seed) the call runs and gets --seed itself.
    Returns False when the shape is outside what can be decided (the caller reports that)."""
    prog = ctx.prog
    pm = astq.parents(tool)
    ev = SymEval(prog, tool).run()
    st = astq.enclosing_stmt(pm, call)
    if not ev.reached(st) or not call.args:
        return False
    e = ev.eval_at(st, call.args[0])
    env, path = ev.at(st)
    opts = ev.eval_at(st, ast.parse("options", mode="eval").body)
    opt = S.sym("options.seed")

    def named(x):
        sub = {}
        for y in S.walk(x):
            if y.op == "call" and isinstance(y.args[0], str) and y.args[0].startswith(".") and len(y.args) == 2 and y.args[1] == opts:
                sub[y] = S.sym("options" + y.args[0])
        return S.subst(x, sub) if sub else x
    e = named(e)
    path = [named(t) for t in path]

    def about_seed(t):
        return any(x == opt for x in S.walk(t))

    def none_test(t):
        """True: holds exactly when a seed is given; False: exactly when none is given; None: something else"""
        if t.op == "cmp" and t.args[0] in ("is", "is not", "==", "!=") and t.args[1] == opt and t.args[2] == S.NONE:
            return t.args[0] in ("is not", "!=")
        if t.op == "not":
            r = none_test(t.args[0])
            return None if r is None else (not r)
        return None
    # guards of the call
    for t in path:
        if not about_seed(t):
            continue
        r = none_test(t)
        if r is True:
            continue
        if r is False:
            ctx.bad(R, tool, st, "the seeding call runs only when no seed is given", what)
            return True
        ctx.bad(R, tool, st, "the seeding call is guarded by `%s`: `--seed 0` is falsy, so a run with the fixed seed 0 is not seeded and two such runs differ"
                % S.show(t)[:80], what)
        return True
    n = 0
    for tests, leaf in strip_cond(e):
        given = None
        for lbl, t in tests:
            r = none_test(t)
            if r is not None:
                given = r if lbl == "T" else (not r)
        if given is False:
            continue
        n += 1
        uses_truth = [x for x in S.walk(leaf) if x.op in ("or", "and") and opt in x.args] or \
            [t for lbl, t in tests if t == opt or (t.op in ("bool", "not") and t.args[0] == opt)]
        if uses_truth:
            ctx.bad(R, tool, st, "the seed passed on is %s: `--seed 0` is falsy and is treated as if no seed were given, so every invocation draws a fresh "
                    "seed and two runs with the fixed seed 0 differ" % S.show(leaf)[:80], what)
            return True
        if leaf != opt:
            ctx.bad(R, tool, st, "with --seed given the generator is seeded with %s, not options.seed" % S.show(leaf)[:100], what)
            return True
    if n == 0:
        return False
    ctx.ok(R, tool.loc(call), what, "argument %s under %s" % (S.show(e)[:80], S.show(S.eand(*path))[:80] if path else "no guard"))
    return True


# --------------------------------------------------- seed offsets are process-independent
NONDET_NAMES = {"hash", "id"}
NONDET_QUAL = ("time.", "os.urandom", "os.getpid", "random.", "uuid.", "secrets.", "datetime.", "numpy.random.", "os.times")


def seed_inputs_deterministic(ctx, R, tool, ds_cls):
    """Everything the per-item seed is computed from, other than the base seed, is a deterministic function of the
    command line and the map file: no value that differs between interpreter processes (salted str hash, id(), clock,
    pid, an unseeded generator) flows from the tool into the dataset attributes read by torch.manual_seed."""
    prog = ctx.prog
    init = prog.own_method(ds_cls, "__init__")
    g = prog.own_method(ds_cls, "__getitem__")
    ms = [c for c in astq.func_calls(g) if prog.qualify(g.module, c.func, g) == "torch.manual_seed"]
    if not ms:
        raise AnalysisError("%s: torch.manual_seed not found in __getitem__" % R)
    read_attrs = {x.attr for c in ms for x in ast.walk(c) if astq.is_self_attr(x, g.params[0])}
    # ... also through locals the seed expression is built from
    names = {x.id for c in ms for x in ast.walk(c) if isinstance(x, ast.Name)}
    for _ in range(3):
        for n_ in g.body_nodes():
            if isinstance(n_, ast.Assign) and any(isinstance(t, ast.Name) and t.id in names for tt in n_.targets for t in astq.flatten_targets(tt)):
                read_attrs |= {x.attr for x in ast.walk(n_.value) if astq.is_self_attr(x, g.params[0])}
                names |= {x.id for x in ast.walk(n_.value) if isinstance(x, ast.Name)}
    read_attrs -= {"utt_path"}
    attr_param = {}
    for n in init.body_nodes():
        if isinstance(n, ast.Assign) and len(n.targets) == 1 and astq.is_self_attr(n.targets[0], init.params[0]):
            ps = {x.id for x in ast.walk(n.value) if isinstance(x, ast.Name) and x.id in init.all_param_names()}
            attr_param[n.targets[0].attr] = ps
    sites = [c for c in astq.func_calls(tool) if prog.resolve(tool.module, c.func, tool) is ds_cls]
    if len(sites) != 1:
        raise AnalysisError("%s: construction site of the dataset not found" % R)
    site = sites[0]
    actual = dict(zip(init.params[1:], site.args))
    actual.update({k.arg: k.value for k in site.keywords if k.arg})
    cfg = CFG(tool.node)
    rd = ReachingDefs(tool, cfg)
    nsite = containing_node(cfg, tool, site)
    n = 0
    for attr in sorted(read_attrs):
        for p in sorted(attr_param.get(attr, ())):
            if p == "seed" or p not in actual:
                continue  # the base seed has its own rule (it may be random when --seed is absent)
            n += 1
            seen, work, bad = set(), [(nsite, actual[p])], []
            set_iter = []

            def _set_valued(v_):
                return isinstance(v_, (ast.Set, ast.SetComp)) or (isinstance(v_, ast.Call) and isinstance(v_.func, ast.Name) and v_.func.id in ("set", "frozenset")) or (
                    isinstance(v_, ast.BinOp) and isinstance(v_.op, (ast.BitOr, ast.BitAnd, ast.Sub, ast.BitXor)) and (_set_valued(v_.left) or _set_valued(v_.right)))

            def _iterated(it_):
                # the collection a comprehension / enumerate / zip walks (sorted(...) fixes the order)
                if isinstance(it_, ast.Call) and isinstance(it_.func, ast.Name) and it_.func.id in ("enumerate", "zip", "list", "tuple", "iter", "reversed") and it_.args:
                    return [y for a_ in it_.args for y in _iterated(a_)]
                return [it_]
            while work:
                at, e = work.pop()
                for x in ast.walk(e):
                    if isinstance(x, ast.comprehension):
                        for it_ in _iterated(x.iter):
                            if _set_valued(it_):
                                set_iter.append(it_)
                            elif isinstance(it_, ast.Name):
                                vals_ = []
                                for n_ in tool.body_nodes():
                                    if isinstance(n_, ast.Assign):
                                        for t_ in n_.targets:
                                            if astq.is_name(t_, it_.id):
                                                vals_.append(n_.value)
                                            elif isinstance(t_, ast.Tuple) and isinstance(n_.value, ast.Tuple) and len(t_.elts) == len(n_.value.elts):
                                                vals_ += [v2 for t2, v2 in zip(t_.elts, n_.value.elts) if astq.is_name(t2, it_.id)]
                                if vals_ and all(_set_valued(v2) for v2 in vals_):
                                    set_iter.append(it_)
                for x in ast.walk(e):
                    if isinstance(x, ast.Call):
                        q = prog.qualify(tool.module, x.func, tool) or ""
                        if (isinstance(x.func, ast.Name) and x.func.id in NONDET_NAMES) or any(q.startswith(pre) for pre in NONDET_QUAL):
                            bad.append(x)
                    if isinstance(x, ast.Name) and isinstance(x.ctx, ast.Load):
                        if isinstance(actual.get("seed"), ast.Name) and x.id == actual["seed"].id:
                            continue  # the base seed folded into a table: it has its own rule (it may be random when --seed is absent)
                        for d in rd.reaching(at, x.id):
                            if d.kind in ("assign", "aug") and d.value is not None and (d.node, x.id) not in seen:
                                seen.add((d.node, x.id))
                                work.append((d.node, d.value))
            for x in bad:
                ctx.bad(R, tool, astq.enclosing_stmt(astq.parents(tool), x), "self.%s, which torch.manual_seed reads, is computed from %s: the value differs between "
                        "interpreter processes (str hashes are salted per process), so a run that is killed and resumed - always a new process - seeds the "
                        "remaining utterances differently from an uninterrupted run, and two runs with the same --seed differ"
                        % (attr, astq.text(x)[:50]), "per-item seed inputs are process-independent")
            for x in set_iter[:1]:
                ctx.bad(R, tool, site, "self.%s, which torch.manual_seed reads, is computed by walking the set `%s`: the iteration order of a set of strings follows their "
                        "hashes, which are salted per interpreter process, so positions taken from it differ between a run and its resumption (and between any two "
                        "runs with the same --seed)" % (attr, astq.text(x)[:40]), "per-item seed inputs are process-independent", robust=True)
            if not bad and not set_iter:
                ctx.ok(R, tool.loc(site), "self.%s (<- %s) is computed from the map file and the command line only" % (attr, astq.text(actual[p])[:40]))
    ctx.floor(R, n, 1)



def module_bound_names(mod):
    """every name a module binds at its top level (assignments also inside try / if / with blocks, defs, classes, imports)"""
    out = set()

    def walk(body):
        for st in body:
            if isinstance(st, (ast.FunctionDef, ast.AsyncFunctionDef, ast.ClassDef)):
                out.add(st.name)
                continue
            if isinstance(st, (ast.Import, ast.ImportFrom)):
                for a in st.names:
                    out.add((a.asname or a.name).split(".")[0])
                continue
            for x in ast.walk(st):
                if isinstance(x, (ast.FunctionDef, ast.AsyncFunctionDef, ast.ClassDef, ast.Lambda)):
                    continue
                if isinstance(x, ast.Name) and isinstance(x.ctx, ast.Store):
                    out.add(x.id)
            for fld in ("body", "orelse", "finalbody"):
                sub = getattr(st, fld, None)
                if isinstance(sub, list) and sub and isinstance(sub[0], ast.stmt):
                    walk(sub)
            for h in getattr(st, "handlers", []) or []:
                walk(h.body)
    walk(mod.tree.body)
    return out


def undefined_package_attrs(prog, modules):
    """(function, node, 'module.attr') for every read  alias.NAME  where alias is bound to a module of the package under
    analysis and that module binds no such name: the read raises AttributeError when it is reached"""
    out = []
    cache = {}
    for f in prog.functions.values():
        if f.module.name.split(".")[-1] not in modules:
            continue
        for x in f.body_nodes():
            if isinstance(x, ast.Attribute) and isinstance(x.value, ast.Name) and isinstance(x.ctx, ast.Load):
                try:
                    q = prog.qualify(f.module, x.value, f)
                except Exception:
                    q = None
                m = prog.modules.get(q) if q else None
                if m is None or x.value.id in f.all_param_names():
                    continue
                if q not in cache:
                    cache[q] = module_bound_names(m)
                if x.attr not in cache[q] and not x.attr.startswith("__"):
                    out.append((f, x, "%s.%s" % (q.split(".")[-1], x.attr)))
    return out
