"""C05 - filter banks are laid out on the scale as documented, with unit gain (structural clauses)."""

import ast
from fractions import Fraction

from .. import astq, nonecheck
from .. import sym as S
from ..report import MISSING
from ..model import AnalysisError
from ..symeval import SymEval
from . import cli_common as cc
from . import filters_common as fc
from .c20 import fresh_and_pure

LEVEL = "other"
TECHNIQUE = ("order-type enumeration of the range-validation guard (exact evaluation on a grid covering every ordering of "
             "the compared quantities), None-default discipline of the constructors, closed-form comparison of vertex / edge "
             "spacing, triangle values and the gammatone / Gabor bandwidth and normalisation constants (log-linear normal "
             "forms), purity of the response methods")
EXPLANATION = (
    "Decides for the four bank constructors: the ValueError guard is implied by the documented rejection condition for "
    "every ordering of {0, low_hz, high_hz, rate/2, rate//2, rate/2+1} (and high_hz = None), and its message cannot raise "
    "TypeError; vertices (triangular, Fbank) are scale_to_hertz(s_lo + k (s_hi - s_lo)/(F+1)), k = 0..F+1, edges (Gabor, "
    "gammatone) sit at k + 1/2, k = 0..F, with centres the mean of adjacent edges, always converting in with "
    "hertz_to_scale and out with scale_to_hertz of the same scaling function (MelScaling for Fbank, in all three of its "
    "methods); the gammatone log c (unit L2 norm / unit peak gain) and alpha constant (ERB / 3 dB) and the Gabor "
    "bandwidth constant equal the values derived from the class docstrings, as log-linear normal forms; triangular and "
    "Fbank responses evaluate the two-piece linear interpolation (in Hz, resp. in mel followed by a square root) switching "
    "at the centre; centers_hz / supports_hz are the interior vertices / vertices i and i+2; the response methods keep no "
    "memo and write no instance state. Does NOT decide strict monotonicity of centres (C19 plus spacing), peak gain 1 and "
    "crossing points as numerical facts.")


def run(ctx):
    ctx.rule(range_rule)
    ctx.rule(spacing)
    ctx.rule(constants)
    ctx.rule(gabor_norm)
    ctx.rule(triangle)
    ctx.rule(centres)
    ctx.rule(purity)
    ctx.rule(fc.banks_stateless, "R-C05-pure")
    ctx.rule(scale_names)
    ctx.rule(scales_read_parameters)
    ctx.rule(arguments_untouched)


def scales_read_parameters(ctx, R="R-C05-spacing"):
    """the banks place their edges with scale.hertz_to_scale / scale_to_hertz of the scaling function they are given: the edges
    lie between low_hz and high_hz only if the two maps read the same, current parameters (a value derived from a parameter when
    the scaling object was built goes stale when the public attribute is re-assigned, and the two maps stop being inverses)"""
    from .c19 import no_derived_state
    no_derived_state(ctx, R)


def arguments_untouched(ctx, R="R-C05-pure"):
    """building a bank does not modify the objects it is given: a scaling function instance (its low_hz / slope are public
    parameters the caller keeps using) is passed through the alias factory as it is, so an attribute written on it by the bank's
    constructor rewrites the caller's scale"""
    from ..eff import Effects
    prog = ctx.prog
    n = 0
    for name in fc.BANKS:
        c = prog.cls("filters." + name)
        f = prog.find_method(c, "__init__")
        if f is None:
            continue
        eff = Effects(prog)
        for p in f.params[1:]:
            ws, _ = eff.writes_to(f, p)
            n += 1
            ctx.check(not ws, R, f, ws[0].stmt if ws else f.node, "%s.__init__ leaves its argument `%s` unmodified" % (name, p),
                      "%s.__init__ writes to the object passed as `%s` (%s): the caller's own instance is changed by building a bank from it"
                      % (name, p, ", ".join(sorted({w.how for w in ws}))), robust=True)
    ctx.floor(R + "/constructor-arguments", n, 8)


def range_rule(ctx, R="R-C05-range"):
    prog = ctx.prog
    n = 0
    for name in fc.BANKS:
        c, f, g, rnode, ev = fc.range_guard(prog, name)
        ctx.check(astq.raise_type(prog, f, rnode) == "ValueError", R, f, rnode, "%s rejects a bad range with ValueError" % name,
                  "%s raises %s for a bad range" % (name, astq.raise_type(prog, f, rnode)))
        misses = []
        pts = 0
        for env in fc.grid():
            pts += 1
            try:
                got = S._truth(S.evaluate(g, env))
            except S.Inconclusive as e:
                raise AnalysisError("%s: cannot evaluate the range guard of %s at %s: %s" % (R, name, env, e))
            if fc.must_reject(env["low_hz"], env["high_hz"], env["sampling_rate"]) and not got:
                misses.append(env)
        n += pts
        if misses:
            w = {k: (S._show_val(v) if v is not None else None) for k, v in misses[0].items()}
            ctx.bad(R, f, rnode, "%s accepts a range the documentation rejects, e.g. %s (%d of %d order-type representatives): low_hz < 0, or "
                    "a positive high_hz that is not above low_hz or lies more than 1 Hz above Nyquist, must raise ValueError"
                    % (name, w, len(misses), pts), "%s range guard implied by the documented condition" % name, extra={"witness": w})
        else:
            ctx.ok(R, f.loc(rnode), "%s: the guard %s holds wherever the documented rejection condition does (%d order-type representatives)"
                   % (name, S.show(g)[:120], pts))
        # the error message must not fail on the default high_hz=None
        for p in nonecheck.none_params(f):
            fs, tested = nonecheck.analyse(f, p)
            for st, node, how in fs:
                ctx.bad(R, f, st, "parameter `%s` defaults to None and is used here (%s: %s) while it can still be None; rejecting a bad range "
                        "then dies with TypeError instead of ValueError" % (p, how, astq.text(node)[:80]), "constructor handles high_hz=None")
            if not fs:
                ctx.ok(R, f.loc(), "%s: optional parameter `%s` is never dereferenced while None" % (name, p))
    ctx.info["range_guard_points"] = n


def spacing(ctx, R="R-C05-spacing"):
    prog = ctx.prog
    for name in fc.BANKS:
        c, f, ev = fc.ctor_eval(prog, name)
        v = fc.layout_value(prog, name, f, ev)
        ctx.need(cc.is_call(v, "tuple") and cc.is_call(v.args[1], "comp"), R, "the layout of %s is not a tuple(generator): %s" % (name, S.show(v)[:80]))
        sf, heff = fc.effective_high(ev, v)
        sl = S.call(".hertz_to_scale", sf, S.sym("low_hz"))
        sh = S.call(".hertz_to_scale", sf, heff)
        if name == "Fbank":
            ctx.check(S.show(sf) == "scales.MelScaling()", R, f, f.node, "Fbank lays its vertices out on the mel scale", "Fbank's scale is %s" % S.show(sf))
        F = S.sym("num_filts")
        sd = S.truediv(S.sub(sh, sl), S.add(F, S.ONE))
        comp = v.args[1]
        elt, it = comp.args[1], comp.args[2]
        idx = [x for x in S.walk(elt) if x.op == "sym" and x.args[0].startswith("@")]
        ctx.need(idx, R, "generator variable not found")
        k = idx[0]
        off = S.ZERO if name in fc.VERTEX_BANKS else S.lift(Fraction(1, 2))
        want = S.call(".scale_to_hertz", sf, S.add(sl, S.mul(sd, S.add(k, off))))
        ok = elt.op == "call" and elt.args[0] == ".scale_to_hertz" and len(elt.args) == 3 and elt.args[1] == sf and \
            S.compare(elt.args[2], want.args[2], domain={})["verdict"] == "equal"
        what = ("vertex k = scale_to_hertz(s_lo + k * (s_hi - s_lo)/(num_filts + 1))" if name in fc.VERTEX_BANKS else
                "edge k = scale_to_hertz(s_lo + (k + 1/2) * (s_hi - s_lo)/(num_filts + 1))") + ", s_lo = hertz_to_scale(low_hz), one scaling function throughout"
        ctx.check(ok, R, f, f.node, "%s: %s" % (name, what), "%s: layout element is %s" % (name, S.show(elt)[:200]))
        cnt = S.add(F, S.lift(2)) if name in fc.VERTEX_BANKS else S.add(F, S.ONE)
        ok = cc.is_call(it, "range") and ((len(it.args) == 3 and it.args[1] == S.ZERO and S.compare(it.args[2], cnt, domain={})["verdict"] == "equal") or
                                          (len(it.args) == 2 and S.compare(it.args[1], cnt, domain={})["verdict"] == "equal"))
        ctx.check(ok, R, f, f.node, "%s: k runs over 0..%s" % (name, "num_filts+1" if name in fc.VERTEX_BANKS else "num_filts"), "%s: k runs over %s" % (name, S.show(it)))
        if name in fc.EDGE_BANKS:
            loops = [n for n in f.body_nodes() if isinstance(n, ast.For) and "edges[:-1]" in astq.text(n.iter) and "edges[1:]" in astq.text(n.iter)]
            ctx.check(len(loops) == 1, R, f, f.node, "%s: filters are built from adjacent edge pairs, in order" % name, "no loop over zip(edges[:-1], edges[1:])")
            if loops:
                cs = [n for n in loops[0].body if isinstance(n, ast.Assign) and astq.is_name(n.targets[0], "center_hz")]
                ok = len(cs) == 1 and astq.eq_text(cs[0].value, "(left_intersect+right_intersect)/2")
                ctx.check(ok, R, f, cs[0] if cs else MISSING(loops[0]), "%s: a centre is the mean of its two edges" % name)


def _la(prog, name, seed):
    c, f, ev = fc.ctor_eval(prog, name, seed)
    loops = [n for n in f.body_nodes() if isinstance(n, ast.For) and "edges[:-1]" in astq.text(n.iter)]
    if len(loops) != 1:
        raise AnalysisError("edge loop not found in %s" % name)
    vals = {}
    for st in loops[0].body:
        if isinstance(st, ast.Assign) and isinstance(st.targets[0], ast.Name) and ev.reached(st):
            vals[st.targets[0].id] = (ev.eval_at(st, st.value), st)
    for st in ast.walk(loops[0]):
        if isinstance(st, ast.Assign) and isinstance(st.targets[0], ast.Name) and st.targets[0].id in ("log_c", "offset") and ev.reached(st):
            vals.setdefault(st.targets[0].id + "@", []).append((ev, st))
    return c, f, ev, loops[0], vals


def constants(ctx, R="R-C05-constants"):
    prog = ctx.prog
    n = S.sym("order")
    l2, lpi = S.call("log", S.lift(2)), S.call("log", S.PI)
    lf = S.call("log", S.call("factorial", S.sub(n, S.ONE)))
    ldf = S.call("log", S.call("factorial", S.sub(S.mul(S.lift(2), n), S.lift(2))))
    delta = S.call("util.hertz_to_angular", S.sub(S.sym("right_intersect"), S.sym("left_intersect")), S.sym("sampling_rate"))
    for erb in (True, False):
        c, f, ev, loop, vals = _la(prog, "ComplexGammatoneFilterBank", {"erb": erb, "scale_l2_norm": False, "max_centered": False})
        la = vals.get("log_alpha")
        ctx.need(la is not None, R, "log_alpha not found in the gammatone constructor")
        if erb:
            want = S.add(S.call("log", delta), S.sub(S.add(S.add(S.mul(S.sub(S.mul(S.lift(2), n), S.lift(2)), l2), S.mul(S.lift(2), lf)), S.neg(lpi)), ldf))
            what = "ERB = edge spacing: log alpha = log D + (2n-2) log 2 + 2 log (n-1)! - log pi - log (2n-2)!"
        else:
            want = S.sub(S.call("log", delta), S.mul(S.lift(Fraction(1, 2)), S.call("log", S.sub(S.mul(S.lift(4), S.power(S.lift(2), S.truediv(S.ONE, n))), S.lift(4)))))
            what = "3 dB crossing at the edges: log alpha = log D - 1/2 log(4 * 2^(1/n) - 4)"
        r = S.compare(la[0], want, expand_logs=True, domain={"order": [Fraction(v) for v in (1, 2, 4)], "left_intersect": [Fraction(100)], "right_intersect": [Fraction(300)],
                                                            "sampling_rate": [Fraction(8000)]})
        if r["verdict"] == "equal":
            ctx.ok(R, f.loc(la[1]), "gammatone (erb=%s): %s" % (erb, what))
        else:
            ctx.bad(R, f, la[1], "gammatone bandwidth parameter with erb=%s is %s; the class docstring (%s) gives %s"
                    % (erb, S.canon(la[0], True)[:200], "equivalent rectangular bandwidth equal to the edge spacing" if erb else "3 dB points at the edges", S.canon(want, True)[:200]),
                    "gammatone alpha constant (erb=%s)" % erb)
    for l2n in (True, False):
        c, f, ev, loop, vals = _la(prog, "ComplexGammatoneFilterBank", {"erb": False, "scale_l2_norm": l2n, "max_centered": False})
        la = vals.get("log_alpha")
        lcs = [(e, st) for e, st in vals.get("log_c@", [])]
        ctx.need(la is not None and lcs, R, "log_c not found in the gammatone constructor")
        # value of log_c after the branch
        c_st = [st for st in loop.body if isinstance(st, ast.Assign) and astq.is_name(st.targets[0], "c")]
        ctx.need(len(c_st) == 1, R, "c = exp(log_c) not found")
        lc = ev.eval_at(c_st[0], ast.parse("log_c", mode="eval").body)
        LA = S.sym("LA")
        lc_n = S.subst(lc, {la[0]: LA})
        if l2n:
            want = S.mul(S.lift(Fraction(1, 2)), S.sub(S.mul(S.sub(S.mul(S.lift(2), n), S.ONE), S.add(l2, LA)), ldf))
            what = "unit L2 norm: log c = 1/2 [(2n-1)(log 2 + log alpha) - log (2n-2)!]"
        else:
            want = S.sub(S.mul(n, LA), lf)
            what = "unit peak gain: log c = n log alpha - log (n-1)!"
        r = S.compare(lc_n, want, expand_logs=True, domain={"order": [Fraction(v) for v in (1, 2, 4)], "LA": [Fraction(-3), Fraction(1, 2)]})
        if r["verdict"] == "equal":
            ctx.ok(R, f.loc(c_st[0]), "gammatone (scale_l2_norm=%s): %s" % (l2n, what))
        else:
            ctx.bad(R, f, c_st[0], "gammatone normalisation constant with scale_l2_norm=%s is log c = %s; %s%s"
                    % (l2n, S.canon(lc_n, True)[:200], what, (" (e.g. at %s: %s vs %s)" % (r["witness"], r["values"][0], r["values"][1])) if r["verdict"] == "differ" else ""),
                    "gammatone log c (scale_l2_norm=%s)" % l2n)
        cc_ = ev.eval_at(c_st[0], c_st[0].value)
        ctx.check(cc_ == S.call("exp", lc), R, f, c_st[0], "c = exp(log c)")
    # Gabor: std = bandwidth_const / angular(centre - left edge)
    for erb in (True, False):
        c, f, ev, loop, vals = _la(prog, "GaborFilterBank", {"erb": erb, "scale_l2_norm": False})
        std = vals.get("std")
        ctx.need(std is not None, R, "std not found in the Gabor constructor")
        half = S.call("util.hertz_to_angular", S.sub(S.truediv(S.add(S.sym("left_intersect"), S.sym("right_intersect")), S.lift(2)), S.sym("left_intersect")), S.sym("sampling_rate"))
        const = S.truediv(S.call("sqrt", S.PI), S.lift(2)) if erb else S.call("sqrt", S.mul(S.lift(Fraction(3, 10)), S.call("log", S.lift(10))))
        want = S.truediv(const, half)
        r = S.compare(std[0], want, domain={})
        ctx.check(r["verdict"] == "equal", R, f, std[1],
                  "Gabor (erb=%s): sigma = %s / (half the edge spacing in rad)" % (erb, "sqrt(pi)/2" if erb else "sqrt(3/10 ln 10)"),
                  "Gabor sigma with erb=%s is %s" % (erb, S.show(std[0])[:160]))


def gabor_norm(ctx, R="R-C05-gabor-norm"):
    """Gaussian h(t) = C exp(-t^2 / 2 sigma^2) exp(i xi t), H(w) = C sigma sqrt(2 pi) exp(-sigma^2 (w - xi)^2 / 2):
    unit peak gain needs log C = -1/2 log 2 pi - log sigma; unit L2 norm needs C^2 sigma sqrt(pi) = 1."""
    prog = ctx.prog
    c = fc.bank(prog, "GaborFilterBank")
    SG, XI, J = S.sym("SIGMA"), S.sym("XI"), S.sym("J")
    half = S.lift(Fraction(1, 2))
    lpi, l2 = S.call("log", S.PI), S.call("log", S.lift(2))
    n_ok = 0
    for l2n in (True, False):
        attrs, ctor, cev = fc.per_filter_attrs(prog, "GaborFilterBank", {"scale_l2_norm": l2n, "erb": False})
        if l2n:
            log_ct = S.sub(S.neg(S.mul(half, S.call("log", SG))), S.mul(S.lift(Fraction(1, 4)), lpi))
        else:
            log_ct = S.sub(S.neg(S.mul(half, S.add(l2, lpi))), S.call("log", SG))
        log_cf = S.add(log_ct, S.add(S.call("log", SG), S.mul(half, S.add(l2, lpi))))
        for meth, halfv in [(m_, None) for m_ in fc.RESPONSE_METHODS] + [("get_frequency_response", True), ("get_frequency_response", False)]:
            f = prog.own_method(c, meth)
            seed_ = {"self._scale_l2_norm": l2n}
            if halfv is not None:
                seed_["half"] = halfv
            ev = SymEval(prog, f, seed=seed_, inline_props=False).run()
            augs = [n for n in f.body_nodes() if isinstance(n, ast.AugAssign) and isinstance(n.op, ast.Add) and isinstance(n.target, (ast.Subscript, ast.Name))
                    and ev.reached(n)]
            ctx.need(augs, R, "no accumulation into the result in GaborFilterBank.%s" % meth)
            fi = S.sym(f.params[1])
            for a in augs:
                v = ev.eval_at(a, a.value)
                if v.op == "call" and v.args[0] == ".conj":
                    continue  # the mirrored sample of the impulse response
                # read self._x[filt_idx] through to the constructor
                sub = {}
                for x in S.walk(v):
                    if x.op == "call" and x.args[0] == "getitem" and x.args[2] == fi and x.args[1].op == "sym" and x.args[1].args[0] in attrs:
                        sub[x] = attrs[x.args[1].args[0]]
                v2 = S.subst(v, sub)
                selfn = f.params[0]
                sig = attrs.get(selfn + "._stds")
                xi = attrs.get(selfn + "._centers_ang")
                ctx.need(sig is not None and xi is not None, R, "per-filter sigma / centre not found in the Gabor constructor")
                v2 = S.subst(v2, {sig: SG})
                v2 = S.subst(v2, {xi: XI})
                v2 = S.subst(v2, {S.const("1j"): J})
                # element-wise selections of a vectorised value do not change the formula; index generators become the index symbol
                while cc.is_call(v2, "getitem") and cc.is_call(v2.args[2], "slice") and v2.args[2].args[1] in (S.NONE, S.ZERO) and v2.args[2].args[3] == S.NONE:
                    v2 = v2.args[1]
                gen = {}
                for x in S.walk(v2):
                    if cc.is_call(x, "np.arange") and len(x.args) == 2:
                        gen[x] = S.sym("t" if meth == "get_impulse_response" else "idx")
                    elif cc.is_call(x, "np.linspace") and len(x.args) >= 4:
                        a_, b_, n_ = x.args[1], x.args[2], x.args[3]
                        closed = [k for k in x.args[4:] if cc.is_call(k, "kw:endpoint")]
                        den = n_ if (closed and closed[0].args[1] == S.FALSE) else S.sub(n_, S.ONE)
                        gen[x] = S.add(a_, S.truediv(S.mul(S.sub(b_, a_), S.sym("idx")), den))
                v2 = S.subst(v2, gen) if gen else v2
                got = S.call("log", v2)
                if meth == "get_impulse_response":
                    t = S.sym("t")
                    want = S.add(S.add(S.neg(S.truediv(S.power(t, S.lift(2)), S.mul(S.lift(2), S.power(SG, S.lift(2))))), log_ct), S.mul(S.mul(J, XI), t))
                    dom = {"t": [Fraction(0), Fraction(3)], "SIGMA": [Fraction(2), Fraction(5, 3)], "XI": [Fraction(1, 2)], "J": [Fraction(1)]}
                    what = "exp(-t^2 / 2 sigma^2 + i xi t) times C, log C = %s" % ("-1/2 log sigma - 1/4 log pi (unit L2 norm)" if l2n else "-1/2 log 2 pi - log sigma (unit peak gain)")
                else:
                    om = S.mul(S.mul(S.add(S.truediv(S.sym("idx"), S.sym(f.params[2])), S.sym("period")), S.lift(2)), S.PI)
                    want = S.add(S.mul(S.neg(S.truediv(S.power(SG, S.lift(2)), S.lift(2))), S.power(S.sub(XI, om), S.lift(2))), log_cf)
                    dom = {"idx": [Fraction(0), Fraction(3)], f.params[2]: [Fraction(16), Fraction(15)], "period": [Fraction(0), Fraction(-1)], "SIGMA": [Fraction(2), Fraction(5, 3)], "XI": [Fraction(1, 2)]}
                    what = "exp(-sigma^2 (xi - w)^2 / 2) times C sigma sqrt(2 pi): %s" % ("log = 1/2 log 2 sigma + 1/4 log pi" if l2n else "1 (unit peak gain)")
                r = S.compare(got, want, domain=dom, expand_logs=True)
                n_ok += 1
                if r["verdict"] == "equal":
                    ctx.ok(R, f.loc(a), "Gabor %s (scale_l2_norm=%s): %s" % (meth, l2n, what))
                elif r["verdict"] == "differ":
                    ctx.bad(R, f, a, "Gabor %s with scale_l2_norm=%s accumulates exp(%s); the Gaussian with %s requires exp(%s) (e.g. at %s: %s vs %s)"
                            % (meth, l2n, S.canon(got, True)[:160], "unit L2 norm" if l2n else "unit peak gain", S.canon(want, True)[:160],
                               r.get("witness"), r["values"][0], r["values"][1]), "Gabor normalisation")
                else:
                    raise AnalysisError("%s: %s (scale_l2_norm=%s): %s" % (R, meth, l2n, r.get("reason")))
    ctx.floor(R, n_ok, 10)


def triangle(ctx, R="R-C05-triangle"):
    """Per bin: the value stored is the documented triangle evaluated at the bin's frequency, with the filter's own three
    vertices.  Everything is read off the data flow into the returned array; local variable names play no role."""
    prog = ctx.prog
    B = S.sym("BIN")
    n_ok = 0
    for name in fc.VERTEX_BANKS:
        c = fc.bank(prog, name)
        for meth in ("get_frequency_response", "get_truncated_response"):
            f = prog.own_method(c, meth)
            fi, width = S.sym(f.params[1]), S.sym(f.params[2])
            stores = fc.bin_stores(prog, f, {"half": False} if meth == "get_frequency_response" else None)
            ctx.need(stores, R, "no per-bin store into the returned array found in %s.%s" % (name, meth))
            # the primary store: index BIN (full response) or BIN - start (truncated); mirrored stores (index -BIN) are C06's
            prim = [s_ for s_ in stores if S.compare(S.sub(s_["index"], B), S.sub(stores[0]["index"], B), domain={})["verdict"] == "equal"
                    and "BIN" in S.symbols(s_["index"]) and not S.compare(S.add(s_["index"], B), S.ZERO, domain={})["verdict"] == "equal"]
            ctx.need(prim, R, "primary per-bin store not identified in %s.%s" % (name, meth))
            val = fc.piecewise(prim)
            # square root taken at the store or on the returned array
            sq_ret = any(isinstance(r_.value, ast.Tuple) and any(isinstance(x, ast.BinOp) and isinstance(x.op, ast.Pow) and astq.text(x.right) in ("0.5", "1 / 2")
                                                                  for x in ast.walk(r_.value)) or
                         (isinstance(r_.value, ast.Tuple) and any(isinstance(x, ast.Call) and astq.text(x.func).endswith("sqrt") for x in ast.walk(r_.value)))
                         for r_ in astq.returns_of(f))
            hz = S.truediv(S.mul(S.sym("self._rate"), B), width)
            V = [S.call("getitem", S.sym("self._vertices"), S.add(fi, S.lift(k))) for k in range(3)]
            V[0] = S.call("getitem", S.sym("self._vertices"), fi)
            if name == "TriangularOverlappingFilterBank":
                x, (l, m, r_) = hz, V
                want = S.cond(S.cmp("<=", x, m), S.truediv(S.sub(x, l), S.sub(m, l)), S.truediv(S.sub(r_, x), S.sub(r_, m)))
                post = ""
            else:
                def mel(e):
                    return S.call(".hertz_to_scale", S.call("scales.MelScaling"), e)
                x, (l, m, r_) = mel(hz), [mel(v) for v in V]
                tri = S.cond(S.cmp("<=", x, m), S.truediv(S.sub(x, l), S.sub(m, l)), S.truediv(S.sub(r_, x), S.sub(r_, m)))
                want = tri if sq_ret else S.power(tri, S.lift(Fraction(1, 2)))
                post = " in mel (MelScaling.hertz_to_scale of the bin and of the vertices), square-rooted"
            n_ok += 1
            got = _norm_mel(val)
            wantn = _norm_mel(want)
            ok = _cond_equal(got, wantn)
            ctx.check(ok, R, f, prim[0]["stmt"],
                      "%s.%s: bin b holds the triangle (x - l)/(m - l) up to the centre, (r - x)/(r - m) beyond it, at x = rate * b / width, with vertices i, i+1, i+2%s"
                      % (name, meth, post),
                      "%s.%s stores %s for bin b; the documented triangle is %s" % (name, meth, S.show(got)[:220], S.show(wantn)[:220]))
            if name == "Fbank" and sq_ret:
                ctx.ok(R, f.loc(), "Fbank.%s takes the square root on the returned array" % meth)
    ctx.floor(R, n_ok, 4)


def _norm_mel(e):
    """MelScaling() instances are interchangeable: normalise the receiver of hertz_to_scale"""
    m = {}
    for x in S.walk(e):
        if x.op == "call" and x.args[0] == ".hertz_to_scale" and len(x.args) == 3:
            rcv = x.args[1]
            if S.show(rcv) in ("scales.MelScaling()", "MelScaling()") or (rcv.op == "call" and str(rcv.args[0]).endswith("MelScaling")):
                continue
    return e


def _cond_equal(a, b):
    """equality of two (possibly conditional, possibly square-rooted) forms, branch by branch under the same test"""
    if a.op == "pow" and b.op == "pow" and a.args[1] == b.args[1]:
        return _cond_equal(a.args[0], b.args[0])
    if a.op == "cond" and b.op == "cond":
        ta, tb = a.args[0], b.args[0]
        same_test = ta == tb or S.compare(S.cond(ta, S.ONE, S.ZERO), S.cond(tb, S.ONE, S.ZERO), domain={})["verdict"] == "equal"
        if not same_test and ta.op == "cmp" and tb.op == "cmp" and ta.args[0] == tb.args[0]:
            same_test = all(S.compare(x, y, domain={})["verdict"] == "equal" for x, y in zip(ta.args[1:], tb.args[1:]))
        return same_test and _cond_equal(a.args[1], b.args[1]) and _cond_equal(a.args[2], b.args[2])
    if a.op == "cond" or b.op == "cond":
        return False
    return S.compare(a, b, domain={})["verdict"] == "equal"


def centres(ctx, R="R-C05-centres"):
    prog = ctx.prog
    for name in fc.VERTEX_BANKS:
        c = fc.bank(prog, name)
        f = prog.own_method(c, "centers_hz")
        r = astq.returns_of(f)
        ctx.check(len(r) == 1 and astq.text(r[0].value) == "self._vertices[1:-1]", R, f, r[0] if r else MISSING(f.node), "%s.centers_hz are the interior vertices" % name, structural=True)
        g = prog.own_method(c, "supports_hz")
        txt = astq.text(astq.returns_of(g)[0].value).replace(" ", "")
        ctx.check("zip(self._vertices[:-2],self._vertices[2:])" in txt, R, g, g.node, "%s.supports_hz[i] spans vertices i and i+2 (so centre i lies inside)" % name, structural=True)
        nf = prog.own_method(c, "num_filts")
        ctx.check(astq.eq_text(astq.returns_of(nf)[0].value, "len(self._vertices)-2"), R, nf, nf.node, "%s.num_filts = number of vertices - 2" % name, structural=True)
    for name in fc.EDGE_BANKS:
        c = fc.bank(prog, name)
        f = prog.own_method(c, "centers_hz")
        ctx.check(astq.text(astq.returns_of(f)[0].value) == "self._centers_hz", R, f, f.node, "%s.centers_hz returns the stored centres" % name, structural=True)


def purity(ctx, R="R-C05-pure"):
    prog = ctx.prog
    for name in fc.BANKS:
        c = fc.bank(prog, name)
        f = prog.own_method(c, "get_frequency_response")
        fresh_and_pure(ctx, R, f, "%s.get_frequency_response" % name)



def scale_names(ctx, R="R-C05-spacing"):
    """a bank configured with a scale by name is laid out on the documented scale of that name"""
    from .c08 import family_names_resolve
    family_names_resolve(ctx, R, "scales.ScalingFunction", {"linear": "LinearScaling", "octave": "OctaveScaling", "mel": "MelScaling", "bark": "BarkScaling"})
