"""Extraction of the STFT framing geometry and the mirrored-bin arithmetic from
compute.py and torch.py as exact closed forms (shared by C01, C02, C14)."""

import ast
from fractions import Fraction

from .. import astq, spec
from .. import sym as S
from ..model import AnalysisError
from ..symeval import SymEval
from . import cli_common as cc

L, Sh, N, D = spec.L, spec.Sh, spec.N, spec.Dft
NN = ("N", "L", "S", "D", "buf_len", "si", "start_idx", "consumed", "trunc_len", "filt_len")
POS = ("L", "S", "D")
DOM = {"L": [Fraction(v) for v in (1, 2, 3, 4, 5, 8, 9)], "S": [Fraction(v) for v in (1, 2, 3, 4, 5)],
       "N": [Fraction(v) for v in (0, 1, 2, 3, 5, 8, 13, 20)], "D": [Fraction(v) for v in (2, 3, 4, 5, 8, 9)],
       "buf_len": [Fraction(v) for v in (0, 1, 2, 3, 5, 8)], "si": [Fraction(v) for v in (0, 1, 2)],
       "start_idx": [Fraction(v) for v in (0, 1, 2)], "consumed": [Fraction(v) for v in (0, 1, 2)],
       "trunc_len": [Fraction(v) for v in (1, 2, 5, 9)], "filt_len": [Fraction(v) for v in (1, 2, 5, 9)]}

NP_RENAME = {"self._frame_length": "L", "self._frame_shift": "S", "self._dft_size": "D"}
TORCH_RENAME = {"frame_length": "L", "frame_shift": "S"}

CONFIGS = [("causal", False), ("causal", True), ("centered", True), ("centered", False)]


def cfg_name(style, kaldi):
    return "%s%s" % (style, "+kaldi_shift" if kaldi else "")


def canon_len(e, names):
    """replace len(<signal>) / <signal>.size(0) by N"""
    m = {}
    for nm in names:
        m[S.call("len", S.sym(nm))] = N
        m[S.call(".size", S.sym(nm), S.ZERO)] = N
        m[S.call("getitem", S.sym(nm + ".shape"), S.ZERO)] = N
        m[S.call(".numel", S.sym(nm))] = N  # 1-D signal (checked by the port before anything else)
        m[S.sym(nm + ".size")] = N
    return S.subst(e, m)


def simp(e):
    return S.simplify_max0(e, pos=POS, nn=NN)


def same(ctx, R, func, node, what, got, want, domain=None, critical=True):
    """Obligation got == want as closed forms.  Violations carry a witness."""
    g, w = simp(_len_syms(got)), simp(_len_syms(want))
    res = S.compare(g, w, domain=domain or DOM)
    if res["verdict"] == "equal":
        ctx.ok(R, func.loc(node) if node is not None else func.loc(), "%s == %s" % (what, S.show(w)), {"how": res["how"]})
        return True
    if res["verdict"] == "differ":
        ctx.bad(R, func, node, "%s is %s, expected %s; they differ e.g. at %s (%s vs %s)"
                % (what, S.show(g), S.show(w), res["witness"], res["values"][0], res["values"][1]),
                "%s == %s" % (what, S.show(w)), extra={"witness": res["witness"]})
        return False
    # piecewise integer forms over the framing parameters only: exhaustive comparison on a declared grid
    names = set(S.symbols(g)) | set(S.symbols(w))
    if names <= {"L", "S", "N", "D"}:
        grid = {"L": [Fraction(v) for v in range(1, 13)], "S": [Fraction(v) for v in range(1, 13)], "N": [Fraction(v) for v in range(0, 40)],
                "D": [Fraction(v) for v in range(1, 13)]}
        grid = {k: v for k, v in grid.items() if k in names}
        r2 = S.compare_on_grid(g, w, grid, None)
        if r2["verdict"] == "equal-on-grid":
            ctx.ok(R, func.loc(node) if node is not None else func.loc(), "%s == %s (bounded: all L, S, D in 1..12, N in 0..39; %d points)" % (what, S.show(w), r2["points"]))
            return True
        if r2["verdict"] == "differ":
            ctx.bad(R, func, node, "%s is %s, expected %s; they differ e.g. at %s (%s vs %s)" % (what, S.show(g), S.show(w), r2["witness"], r2["values"][0], r2["values"][1]),
                    "%s == %s" % (what, S.show(w)), extra={"witness": r2["witness"]})
            return False
    raise AnalysisError("%s: cannot decide %s: %s" % (R, what, res["reason"]))


def _len_syms(e):
    """len(<name>) of an opaque operand becomes the integer symbol len_<name>"""
    m = {}
    for x in S.walk(e):
        if cc.is_call(x, "len") and len(x.args) == 2:
            import re
            m[x] = S.sym("len_" + re.sub(r"[^A-Za-z0-9]+", "_", S.show(x.args[1])).strip("_"))
    return S.subst(e, m) if m else e


def find_sub(e, pred):
    return [x for x in S.walk(e) if pred(x)]


def lt_threshold(guard, n=N):
    """If guard is equivalent to `N < T` return T, else None."""
    g = guard
    if g.op == "and":
        # pick the conjunct mentioning N
        for a in g.args:
            t = lt_threshold(a, n)
            if t is not None:
                return t
        return None
    if g.op != "cmp":
        return None
    op, a, b = g.args
    if op == "<" and a == n:
        return b
    if op == ">" and b == n:
        return a
    if op == "<=" and a == n:
        return S.add(b, S.ONE)
    if op == ">=" and b == n:
        return S.add(a, S.ONE)
    return None


# ------------------------------------------------------------------ numpy side
def np_eval(prog, fname, style, kaldi, extra_seed=None, no_inline=("_compute_frame",)):
    f = prog.func(fname)
    seed = {"self._frame_style": style, "self._kaldi_shift": kaldi, "self._started": False}
    seed.update(extra_seed or {})
    ev = SymEval(prog, f, seed=seed, rename=NP_RENAME, inline_self=True, no_inline=set(no_inline)).run()
    return f, ev


def _compute_frame_call(f, ev):
    hits = []
    for c, g, env in ev.calls:
        if astq.attr_call(c, "_compute_frame"):
            hits.append(c)
    return hits


def _alloc_shape(v):
    """(rows, cols) of np.empty/np.zeros((rows, cols), ...) / x.new_empty((r, c))"""
    if v.op == "call" and v.args[0] in ("np.empty", "np.zeros") and len(v.args) >= 2 and cc.is_call(v.args[1], "tuple") and len(v.args[1].args) == 3:
        return v.args[1].args[1], v.args[1].args[2]
    if v.op == "call" and v.args[0] in (".new_empty", ".new_zeros") and len(v.args) >= 3 and cc.is_call(v.args[2], "tuple") and len(v.args[2].args) == 3:
        return v.args[2].args[1], v.args[2].args[2]
    return None


def np_full_geometry(ctx, R, style, kaldi):
    prog = ctx.prog
    f, ev = np_eval(prog, "compute.ShortTimeFourierTransformFrameComputer.compute_full", style, kaldi)
    sig = f.params[1]
    out = {"func": f}
    pm = astq.parents(f)
    empties, fulls = [], []
    for guard, v, node in ev.returns:
        sh = _alloc_shape(v)
        if sh is None:
            raise AnalysisError("%s: return value of compute_full is not a fresh (rows, cols) array: %s" % (R, S.show(v)[:120]))
        rows, cols = canon_len(sh[0], [sig]), sh[1]
        (empties if rows == S.ZERO else fulls).append((canon_len(guard, [sig]), rows, cols, node))
    if len(empties) != 1 or len(fulls) != 1:
        raise AnalysisError("%s: expected one empty and one full return in compute_full (%s), found %d/%d"
                            % (R, cfg_name(style, kaldi), len(empties), len(fulls)))
    out["empty"] = empties[0]
    out["full"] = fulls[0]
    calls = _compute_frame_call(f, ev)
    if len(calls) != 1:
        raise AnalysisError("%s: expected one _compute_frame call in compute_full" % R)
    c = calls[0]
    st = astq.enclosing_stmt(pm, c)
    frame = canon_len(ev.eval_at(st, c.args[0]), [sig])
    out["frame_node"] = st
    out.update(_parse_np_frame(R, frame, sig, "compute_full"))
    loop = [a for a in astq.ancestors(pm, c) if isinstance(a, ast.For)]
    if not loop:
        raise AnalysisError("%s: _compute_frame is not called from a frame loop" % R)
    it = canon_len(ev.eval_at(loop[0], loop[0].iter), [sig])
    if not (cc.is_call(it, "range") and len(it.args) == 2):
        raise AnalysisError("%s: frame loop is not `for k in range(num_frames)`: %s" % (R, S.show(it)))
    out["loop_count"] = it.args[1]
    out["loop_var"] = S.sym(loop[0].target.id)
    out["loop_node"] = loop[0]
    return out


def _parse_np_frame(R, frame, sig, where):
    if not (cc.is_call(frame, "getitem") and cc.is_call(frame.args[2], "slice")):
        raise AnalysisError("%s: frame given to _compute_frame in %s is not a slice: %s" % (R, where, S.show(frame)[:120]))
    src, sl = frame.args[1], frame.args[2]
    lo, hi, step = sl.args[1], sl.args[2], sl.args[3]
    if step != S.NONE:
        raise AnalysisError("%s: strided frame slice" % R)
    # x[a:][lo:hi] is x[a + lo : a + hi] (a >= 0): fold a dropped prefix into the frame bounds
    while cc.is_call(src, "getitem") and cc.is_call(src.args[2], "slice") and src.args[2].args[2] == S.NONE and src.args[2].args[3] == S.NONE \
            and src.args[2].args[1] != S.NONE and find_sub(src.args[1], lambda x: cc.is_call(x, "np.pad")):
        a = src.args[2].args[1]
        lo = S.add(a, lo if lo != S.NONE else S.ZERO)
        hi = S.add(a, hi)
        src = src.args[1]
    pads = find_sub(src, lambda x: cc.is_call(x, "np.pad"))
    out = {"frame_lo": lo if lo != S.NONE else S.ZERO, "frame_hi": hi, "src": src}
    if not pads:
        out["pad"] = None
        return out
    p = pads[0]
    if not (len(p.args) >= 4 and cc.is_call(p.args[2], "tuple") and len(p.args[2].args) == 3):
        raise AnalysisError("%s: np.pad call not of the form np.pad(x, (left, right), mode)" % R)
    out["pad"] = {"src": p.args[1], "left": p.args[2].args[1], "right": p.args[2].args[2], "mode": p.args[3]}
    # the unpadded alternative, if any, must be taken only when both pads are zero
    for tests, leaf in cc.strip_cond(src):
        if not find_sub(leaf, lambda x: cc.is_call(x, "np.pad")):
            ok = any(lbl == "F" and t == S.eor(out["pad"]["left"], out["pad"]["right"]) for lbl, t in tests)
            if not ok:
                raise AnalysisError("%s: padding is skipped under a condition other than `not (pad_left or pad_right)`" % R)
    return out


# ------------------------------------------------------------------ torch side
def torch_eval(prog, centered, kaldi, extra_seed=None):
    f = prog.func("torch.pytorch_stft_frame_computer")
    seed = {"centered": centered, "kaldi_shift": kaldi}
    seed.update(extra_seed or {})
    ev = SymEval(prog, f, seed=seed, rename=TORCH_RENAME).run()
    return f, ev


def torch_geometry(ctx, R, centered, kaldi):
    prog = ctx.prog
    f, ev = torch_eval(prog, centered, kaldi)
    sig = f.params[0]
    out = {"func": f}
    empties, fulls = [], []
    for guard, v, node in ev.returns:
        sh = _alloc_shape(v)
        g = canon_len(guard, [sig])
        if sh is not None:
            empties.append((g, canon_len(sh[0], [sig]), sh[1], node))
        else:
            fulls.append((g, v, node))
    if len(empties) < 1 or len(fulls) != 1:
        raise AnalysisError("%s: expected empty return(s) and one full return in pytorch_stft_frame_computer, found %d/%d" % (R, len(empties), len(fulls)))
    out["empties"] = empties
    # the signal is too short when any of the empty returns is taken (guards are cumulative path conditions)
    def proj(gd):
        # argument-validation conjuncts (rank, matching list lengths, window shape) guard every return alike
        if gd.op == "and":
            keep = [a for a in gd.args if "N" in S.symbols(a)]
            return S.eand(*keep) if keep else S.TRUE
        return gd
    out["empty"] = (S.eor(*[proj(e[0]) for e in empties]) if len(empties) > 1 else empties[0][0], empties[-1][1], empties[-1][2], empties[-1][3])
    out["full"] = fulls[0]
    strided = find_sub(fulls[0][1], lambda x: cc.is_call(x, ".as_strided"))
    if not strided:
        raise AnalysisError("%s: framing by as_strided not found in the torch port" % R)
    st = canon_len(strided[0], [sig])
    src, shape, strides = st.args[1], st.args[2], st.args[3]
    if not (cc.is_call(shape, "tuple") and len(shape.args) == 3 and cc.is_call(strides, "tuple") and len(strides.args) == 3):
        raise AnalysisError("%s: as_strided(shape, strides) not recognised" % R)
    out["rows"], out["frame_len"] = shape.args[1], shape.args[2]
    out["stride_frame"], out["stride_sample"] = strides.args[1], strides.args[2]
    cats = find_sub(src, lambda x: cc.is_call(x, "torch.cat") or cc.is_call(x, "torch.concatenate"))
    if not cats:
        out["pad"] = None
        return out
    parts = cats[0].args[1]
    if not (cc.is_call(parts, "list") and len(parts.args) == 4):
        raise AnalysisError("%s: padding is not torch.cat([left, sig, right])" % R)
    left, mid, right = parts.args[1:]
    out["pad"] = {"left_expr": left, "mid": mid, "right_expr": right}
    for tests, leaf in cc.strip_cond(src):
        if not find_sub(leaf, lambda x: cc.is_call(x, "torch.cat")):
            pass
    return out


def flipped_prefix(e, sig):
    """e == sig[:P].flip(0)  ->  P"""
    if cc.is_call(e, ".flip") and e.args[2] == S.ZERO and cc.is_call(e.args[1], "getitem") and e.args[1].args[1] == S.sym(sig):
        sl = e.args[1].args[2]
        if cc.is_call(sl, "slice") and sl.args[1] == S.NONE and sl.args[3] == S.NONE:
            return sl.args[2]
    return None


def flipped_suffix(e, sig):
    """e == sig[Q:].flip(0)  ->  Q"""
    if cc.is_call(e, ".flip") and e.args[2] == S.ZERO and cc.is_call(e.args[1], "getitem") and e.args[1].args[1] == S.sym(sig):
        sl = e.args[1].args[2]
        if cc.is_call(sl, "slice") and sl.args[2] == S.NONE and sl.args[3] == S.NONE:
            return sl.args[1]
    return None


# ---------------------------------------------------------- mirrored-bin walk
HALF_LEN = D // 2 + 1


def _half_len_rewrite(e):
    """API contract: len(np.fft.rfft(x, n=D)) == spect.size(1) == D//2 + 1.  The
    transform length handed to rfft is named D."""
    m0 = {}
    for x in S.walk(e):
        if cc.is_call(x, "torch.fft.rfft") and len(x.args) >= 3 and x.args[2] != D:
            m0[x.args[2]] = D
        if cc.is_call(x, "np.fft.rfft"):
            for a in x.args[1:]:
                if cc.is_call(a, "kw:n") and a.args[1] != D:
                    m0[a.args[1]] = D
    if m0:
        e = S.subst(e, m0)
    m = {}
    for x in S.walk(e):
        if cc.is_call(x, "len") and find_sub(x.args[1], lambda y: cc.is_call(y, "np.fft.rfft")):
            r = find_sub(x.args[1], lambda y: cc.is_call(y, "np.fft.rfft"))[0]
            n = [a.args[1] for a in r.args[1:] if cc.is_call(a, "kw:n")]
            if n:
                m[x] = S.add(S.floordiv(n[0], S.lift(2)), S.ONE)
        if cc.is_call(x, ".size") and len(x.args) == 3 and x.args[2] == S.ONE and cc.is_call(x.args[1], "torch.fft.rfft"):
            r = x.args[1]
            if len(r.args) >= 3:
                m[x] = S.add(S.floordiv(r.args[2], S.lift(2)), S.ONE)
    return S.subst(e, m) if m else e


def _split_product(R, v, spect_marker):
    """v == <spectrum segment> * <filter segment>: returns (spectrum getitem, filter getitem, wrappers)"""
    if v.op != "mul":
        raise AnalysisError("%s: segment product is not a product: %s" % (R, S.show(v)[:100]))
    a, b = v.args
    sa, sb = S.show(a), S.show(b)
    if any(m in sa for m in spect_marker) and not any(m in sb for m in spect_marker):
        sp, fl = a, b
    elif any(m in sb for m in spect_marker) and not any(m in sa for m in spect_marker):
        sp, fl = b, a
    else:
        raise AnalysisError("%s: cannot tell the spectrum operand from the filter operand" % R)
    wrappers = []
    while sp.op == "call" and sp.args[0] in (".conj", ".flip", ".conjugate"):
        wrappers.append(sp.args[0])
        sp = sp.args[1]
    if not cc.is_call(sp, "getitem") or not cc.is_call(fl, "getitem"):
        raise AnalysisError("%s: operands of the segment product are not slices" % R)
    return sp, fl, wrappers


def np_mirror(ctx, R):
    """Closed forms of the conjugate (negative-frequency) segment in
    STFTFrameComputer._compute_frame: capacity, slice bounds, start decrement."""
    prog = ctx.prog
    f = prog.func("compute.ShortTimeFourierTransformFrameComputer._compute_frame")
    out = {"func": f}
    for conj in (True, False):
        seed = {"conjugate": conj, "pydrobert.speech.config.USE_FFTPACK": False, "self._power": True}
        ev = SymEval(prog, f, seed=seed, rename=NP_RENAME, inline_props=False).run()
        whiles = [n for n in f.body_nodes() if isinstance(n, ast.While)]
        if len(whiles) != 1:
            raise AnalysisError("%s: segment walk loop not found in _compute_frame" % R)
        w = whiles[0]
        out["while"] = w
        out["while_test"] = ev.eval_at(w.body[0], w.test) if False else None
        # last statements of the loop body: consumed += seg_len etc.
        adv = [s for s in w.body if isinstance(s, ast.AugAssign) and astq.is_name(s.target, "consumed")]
        if len(adv) != 1:
            raise AnalysisError("%s: `consumed += seg_len` not found" % R)
        seg_len = _half_len_rewrite(ev.eval_at(adv[0], adv[0].value))
        # the product statement: val += nonlin(half_spect[...] * truncated_filt[...])
        prods = [c for c, g, env in ev.calls]  # unused
        muls = []
        for n in ast.walk(w):
            if isinstance(n, ast.AugAssign) and astq.is_name(n.target, "val") and ev.reached(n):
                muls.append(n)
        if len(muls) != 1:
            raise AnalysisError("%s: expected exactly one reachable `val += ...` in the %s branch, found %d"
                                % (R, "conjugate" if conj else "direct", len(muls)))
        v = _half_len_rewrite(ev.eval_at(muls[0], muls[0].value))
        # the reduction wraps the product: nonlin(product)
        prod_e = [x for x in S.walk(v) if x.op == "mul" and ("rfft" in S.show(x))]
        if not prod_e:
            raise AnalysisError("%s: segment product not found in `val += ...`" % R)
        sp, fl, wrappers = _split_product(R, prod_e[0], ("rfft",))
        spect, filt = [sp], [fl]
        conj_wrapped = ".conj" in wrappers
        dec = [s for s in ast.walk(w) if isinstance(s, ast.AugAssign) and astq.is_name(s.target, "start_idx") and isinstance(s.op, ast.Sub) and ev.reached(s)]
        if len(dec) != 1:
            raise AnalysisError("%s: `start_idx -= ...` not found in the %s branch" % (R, "conjugate" if conj else "direct"))
        key = "conj" if conj else "direct"
        out[key] = {
            "seg_len": seg_len,
            "spect_slice": spect[0].args[2],
            "filt_slice": filt[0].args[2],
            "conjugated": conj_wrapped,
            "decrement": _half_len_rewrite(ev.eval_at(dec[0], dec[0].value)),
            "node": muls[0], "dec_node": dec[0], "adv_node": adv[0],
        }
    return out


def torch_mirror(ctx, R):
    prog = ctx.prog
    f = prog.func("torch.pytorch_stft_frame_computer")
    out = {"func": f}
    for conj in (True, False):
        seed = {"conj": conj, "centered": False, "use_power": True, "is_real": False}
        ev = SymEval(prog, f, seed=seed, rename=TORCH_RENAME).run()
        whiles = [n for n in f.body_nodes() if isinstance(n, ast.While)]
        if len(whiles) != 1:
            raise AnalysisError("%s: segment walk loop not found in the torch port" % R)
        w = whiles[0]
        out["while"] = w
        adv = [s for s in w.body if isinstance(s, ast.AugAssign) and astq.is_name(s.target, "consumed")]
        if len(adv) != 1:
            raise AnalysisError("%s: `consumed += seg_len` not found in the torch port" % R)
        seg_len = _half_len_rewrite(ev.eval_at(adv[0], adv[0].value))
        prod = [s for s in w.body if isinstance(s, ast.Assign) and astq.is_name(s.targets[0], "seg") and isinstance(s.value, ast.BinOp)]
        if len(prod) != 1:
            raise AnalysisError("%s: `seg = seg * filt[...]` not found in the torch port" % R)
        v = _half_len_rewrite(ev.eval_at(prod[0], prod[0].value))
        sp, fl, wrappers = _split_product(R, v, ("rfft",))
        spect, filt = [sp], [fl]
        idx = sp.args[2]
        sl = [x for x in ([idx] if cc.is_call(idx, "slice") else idx.args[1:]) if isinstance(x, S.E) and cc.is_call(x, "slice")]
        if len(sl) != 1:
            raise AnalysisError("%s: torch spectrum slice not recognised: %s" % (R, S.show(idx)[:100]))
        dec = [s for s in ast.walk(w) if isinstance(s, ast.AugAssign) and astq.is_name(s.target, "si") and isinstance(s.op, ast.Sub) and ev.reached(s)]
        if len(dec) != 1:
            raise AnalysisError("%s: `si -= ...` not found in the torch %s branch" % (R, "conjugate" if conj else "direct"))
        key = "conj" if conj else "direct"
        out[key] = {
            "seg_len": seg_len, "spect_slice": sl[0], "filt_slice": filt[0].args[2],
            "conjugated": ".conj" in wrappers,
            "flipped": ".flip" in wrappers,
            "decrement": _half_len_rewrite(ev.eval_at(dec[0], dec[0].value)),
            "node": prod[0], "dec_node": dec[0], "adv_node": adv[0],
        }
    return out


def check_mirror(ctx, R, m, start, tlen, flipped_slices):
    """Obligations on a mirror description (numpy or torch) against spec.GEOM.

    ``start`` / ``tlen``: symbols of the running start bin and the truncated filter
    length; ``flipped_slices``: torch style (slice [lo:hi] then flip) vs numpy style
    (slice [a:b:-1])."""
    f = m["func"]
    cap = spec.GEOM["mirror_capacity"]
    consumed = S.sym("consumed")
    c, d = m["conj"], m["direct"]
    dom = dict(DOM)
    # direct branch: seg_len = clip(min(start + tlen - consumed, half_len) - start)
    want_d = S.emax(S.ZERO, S.sub(S.emin(S.add(start, S.sub(tlen, consumed)), HALF_LEN), start))
    same(ctx, R, f, d["adv_node"], "direct segment length", d["seg_len"], want_d, dom)
    same(ctx, R, f, d["dec_node"], "start decrement after a direct segment", d["decrement"], HALF_LEN, dom)
    want_c = S.emax(S.ZERO, S.sub(S.emin(S.add(start, S.sub(tlen, consumed)), cap), start))
    same(ctx, R, f, c["adv_node"], "mirrored segment length (capacity = D - (D//2+1) negative-frequency bins)", c["seg_len"], want_c, dom)
    same(ctx, R, f, c["dec_node"], "start decrement after a mirrored segment", c["decrement"], cap, dom)
    ctx.check(c["conjugated"] and not d["conjugated"], R, f, c["node"], "mirrored bins are conjugated, direct bins are not",
              "conjugation is applied to the wrong branch (mirrored: %s, direct: %s)" % (c["conjugated"], d["conjugated"]))
    seg = S.sym("seg_len")
    # direct slice: [start : start + seg_len]
    lo, hi = d["spect_slice"].args[1], d["spect_slice"].args[2]
    same(ctx, R, f, d["node"], "direct slice start", lo if lo != S.NONE else S.ZERO, start, dom)
    same(ctx, R, f, d["node"], "direct slice length", S.sub(hi, lo if lo != S.NONE else S.ZERO), _as_seg(d["seg_len"], seg, hi, lo), dom)
    # mirrored slice: absolute index of the first bin taken and the number of bins
    lo, hi, step = c["spect_slice"].args[1], c["spect_slice"].args[2], c["spect_slice"].args[3]
    first_want = S.sub(S.add(HALF_LEN, spec.GEOM["mirror_first"]), start)  # half_len - (2 - D%2) - start
    if flipped_slices:
        ctx.check(c.get("flipped", False), R, f, c["node"], "the mirrored slice is reversed (flip)", "the mirrored slice is not reversed")
        first = S.sub(_absolute(hi), S.ONE)
        count = S.sub(_absolute(hi), _absolute(lo))
    else:
        ctx.check(step == S.lift(-1), R, f, c["node"], "the mirrored slice runs backwards (step -1)", "the mirrored slice has step %s" % S.show(step))
        first = _absolute(lo)
        count = S.sub(_absolute(lo), _absolute(hi))
    same(ctx, R, f, c["node"], "index of the first mirrored bin (conjugate of bin D - half_len - start)", first, first_want, dom)
    same(ctx, R, f, c["node"], "number of mirrored bins taken", count, c["seg_len"], dom)
    # filter operand consumes [consumed : consumed + seg_len] in both branches
    for br, name in ((d, "direct"), (c, "mirrored")):
        flo, fhi = br["filt_slice"].args[1], br["filt_slice"].args[2]
        same(ctx, R, f, br["node"], "%s filter segment start" % name, flo if flo != S.NONE else S.ZERO, consumed, dom)
        same(ctx, R, f, br["node"], "%s filter segment length" % name, S.sub(fhi, flo if flo != S.NONE else S.ZERO), br["seg_len"], dom)


def _as_seg(seg_len_expr, seg, hi, lo):
    return seg_len_expr


def _absolute(bound):
    """A slice bound that is negative for every admissible (D, start) is relative to the
    end of the half spectrum: absolute = half_len + bound."""
    vals = []
    bound0 = bound
    bound = _len_syms(bound)
    names = S.symbols(bound)
    for Dv in (8, 9, 16, 17):
        for sv in (0, 1):
            for kv in (0, 1, 2):
                env = {}
                for nm in names:
                    if nm == "D":
                        env[nm] = Fraction(Dv)
                    elif nm in ("si", "start_idx"):
                        env[nm] = Fraction(sv)
                    elif nm == "consumed":
                        env[nm] = Fraction(0)
                    elif nm == "seg_len":
                        env[nm] = Fraction(kv)
                    else:
                        env[nm] = Fraction(kv + 1)  # lengths of operands
                try:
                    vals.append(S.evaluate(bound, env))
                except S.Inconclusive:
                    return bound0
    if vals and all(v < 0 for v in vals):
        return S.add(HALF_LEN, bound)
    if vals and all(v >= 0 for v in vals):
        return bound
    raise AnalysisError("slice bound %s changes sign over the admissible range; python slicing semantics ambiguous" % S.show(bound))
