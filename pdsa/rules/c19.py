"""C19 - scaling functions are strictly increasing and exactly invertible (over the reals)."""

import ast
import decimal
from fractions import Fraction

from .. import astq
from .. import sym as S
from .. import realfun as RF
from ..report import MISSING
from ..model import AnalysisError
from ..symeval import SymEval
from . import cli_common as cc

LEVEL = "proof"
TECHNIQUE = ("symbolic extraction of each forward/backward pair into piecewise Moebius / log / exp chains with exact "
             "rational coefficients; composition to the identity piece by piece, structural strict monotonicity, exact "
             "continuity at the break-points, published-value anchors")
EXPLANATION = (
    "Proof over the reals, re-established from the parsed source on every run: for LinearScaling, OctaveScaling, "
    "MelScaling and BarkScaling both methods are extracted as closed forms of their argument (coefficients are the "
    "literals' exact decimal values); scale_to_hertz(hertz_to_scale(f)) = f and hertz_to_scale(scale_to_hertz(s)) = s are "
    "shown piece by piece in rational normal form with exp/log cancellation (pieces matched through exact rational "
    "break-point images), every piece is strictly increasing on its interval (positive Moebius determinant with the "
    "pole outside, increasing log/exp/2**x, positive factors), neighbouring pieces agree at the break-points, the mel "
    "map sends 1000 Hz into [999.98, 1000.02], the Bark map is Traunmueller's 26.81 f/(1960+f) - 0.53 with the "
    "published end corrections at 2 and 20.1 Bark, and OctaveScaling rejects low_hz <= 0 before storing it. "
    "Floating-point round-off of log/exp is not bounded (real arithmetic).")
TRUSTED = ["real arithmetic: floating-point round-off of log/exp is not bounded by the analysis"]

DOM_HI = Fraction(100000)


def _max_to_cond(e):
    if e.op in ("const", "sym", "unknown"):
        return e
    args = [_max_to_cond(a) if isinstance(a, S.E) else a for a in e.args]
    e = S.rebuild(e.op, args)
    if e.op in ("max", "min") and len(e.args) == 2:
        a, b = e.args
        if S.is_num(a) != S.is_num(b):
            c, v = (a, b) if S.is_num(a) else (b, a)
            if e.op == "max":
                return S.cond(S.cmp("<", v, c), c, v)
            return S.cond(S.cmp(">", v, c), c, v)
    return e


def instance_attrs(prog, cls):
    """attribute -> (E of its value in terms of constructor parameters, verbatim?) from __init__,
    plus literal class-level constants"""
    out = {}
    for k in reversed(prog.mro(cls)):
        for name, node in k.attrs.items():
            if isinstance(node, ast.Constant) and isinstance(node.value, (int, float)) and not isinstance(node.value, bool):
                out["self." + name] = (S.lift(Fraction(repr(node.value)) if isinstance(node.value, float) else node.value), True, node)
    init = prog.find_method(cls, "__init__")
    if init is not None and init.cls is not None and init.cls.name != "AliasedFactory":
        ev = SymEval(prog, init, inline_props=False).run()
        for key, val in ev.env.items():
            if key.startswith(init.params[0] + ".") and isinstance(val, S.E):
                verbatim = val.op == "sym" and val.args[0] in init.params
                out["self." + key.split(".", 1)[1]] = (val, verbatim, init.node)
    return out


def extract(prog, cls, meth, argname):
    f = prog.own_method(cls, meth)
    ren = {}
    ev = SymEval(prog, f, rename=ren, args={f.params[1]: S.sym(argname)}, inline_props=False, inline_self=True).run()
    if not ev.returns:
        raise AnalysisError("%s.%s has no return" % (cls.name, meth))
    val = None
    for guard, v, _ in reversed(ev.returns):
        val = v if val is None else S.cond(guard, v, val)
    attrs = instance_attrs(prog, cls)
    m = {}
    for x in S.walk(val):
        if x.op == "sym" and x.args[0] in attrs:
            m[x.args[0]] = attrs[x.args[0]][0]
    if m:
        val = S.subst(val, m)
    val = RF.norm_pow2(val)
    # the positive constant K = max(1e-10, low_hz) of the octave scale stays one symbol
    m = {}
    for x in S.walk(val):
        if x.op == "max" and len(x.args) == 2 and any(S.is_num(a) and a.value > 0 for a in x.args) and any(a == S.sym("low_hz") for a in x.args):
            m[x] = S.sym("K")
    if m:
        val = S.subst(val, m)
    return f, _max_to_cond(val)


def identity(ctx, R, f, what, comp, var, dom, pos):
    """comp(var) == var on dom, piece by piece"""
    n = 0
    for iv, leaf in RF.pieces(comp, var, dom, cc.strip_cond):
        n += 1
        s = RF.simplify_explog(leaf)
        try:
            ok = S.ratfunc(s).equals(S.ratfunc(S.sym(var)))
        except S.Inconclusive:
            ok = False
        if ok:
            ctx.ok(R, f.loc(), "%s on %s reduces to the identity" % (what, iv), {"piece": S.show(leaf)[:160]})
            continue
        if any(x.op == "sym" and x.args[0] in ("numpy.inf", "math.inf", "numpy.nan", "math.nan") for x in S.walk(s)):
            ctx.bad(R, f, f.node, "%s is %s on %s: the map is not finite there, hence neither invertible nor strictly increasing on its documented range"
                    % (what, S.show(s)[:60], iv), "%s == identity" % what)
            continue
        # refute with an exact / high-precision witness inside the piece
        w = None
        cands = []
        lo = iv.lo if iv.lo is not None else Fraction(1)
        hi = iv.hi if iv.hi is not None else lo + 1000
        for t in (Fraction(1, 3), Fraction(1, 2), Fraction(5, 7)):
            cands.append(lo + (hi - lo) * t)
        for x0 in cands:
            env = {var: x0, "low_hz": Fraction(10), "slope_hz": Fraction(1, 2), "K": Fraction(10)}
            try:
                v = S.evaluate(s, env)
            except (S.Inconclusive, decimal.InvalidOperation):
                continue
            if S.values_differ(v, x0):
                w = (env, v)
                break
        if w is not None:
            ctx.bad(R, f, f.node, "%s is not the identity on %s: at %s it gives %s (normal form %s)"
                    % (what, iv, {k: S._show_val(v_) for k, v_ in w[0].items() if k in S.symbols(s) or k == var}, S._show_val(w[1]), S.canon(s)[:160]),
                    "%s == identity" % what)
        else:
            raise AnalysisError("%s: cannot reduce %s to the identity nor refute it: %s" % (R, what, S.show(s)[:200]))
    return n


def run(ctx):
    prog = ctx.prog
    sm = prog.module("scales")
    classes = [c for c in prog.subclasses(prog.cls("scales.ScalingFunction")) if prog.is_concrete(c)]
    ctx.floor("R-C19", len(classes), 4)
    for c in classes:
        ctx.rule(one_class, c)
    ctx.rule(octave_validation)
    ctx.rule(no_derived_state)
    ctx.rule(names)
    ctx.rule(stateless)
    ctx.rule(total_on_domain)
    ctx.rule(piecewise_dtype)
    ctx.info["exhaustive"] = False


def one_class(ctx, c):
    prog = ctx.prog
    R = "R-C19/" + c.name
    ff, F = extract(prog, c, "hertz_to_scale", "x")
    gf, G = extract(prog, c, "scale_to_hertz", "s")
    pos = ("slope_hz", "low_hz", "K")
    symbolic = bool(set(S.symbols(F)) & {"low_hz", "slope_hz", "K"})
    if c.name == "OctaveScaling":
        dom_x = RF.Interval(Fraction(1, 10**10), None)  # x >= low_hz > 0 (positivity is what matters)
        ctx.assume("OctaveScaling: frequencies are queried from low_hz > 0 upward (constructor validated)")
    else:
        dom_x = RF.Interval(Fraction(0), DOM_HI)
    if "slope_hz" in S.symbols(F) + S.symbols(G):
        ctx.assume("LinearScaling is increasing iff slope_hz > 0, which the constructor does not validate "
                   "(the property demands validation only for the octave scale): slope_hz > 0 assumed")
    # 1. forward then backward
    comp = S.subst(G, {"s": F})
    n1 = identity(ctx, R + "/inverse", gf, "scale_to_hertz(hertz_to_scale(f))", comp, "x", dom_x, pos)
    # 2. image of the domain and backward then forward
    fp = RF.pieces(F, "x", dom_x, cc.strip_cond)
    ctx.need(fp, R, "no feasible piece of hertz_to_scale on the domain")
    dom_s = None
    if not symbolic and c.name != "MelScaling":
        try:
            lo = S.evaluate(fp[0][1], {"x": dom_x.lo})
            hi = S.evaluate(fp[-1][1], {"x": dom_x.hi}) if dom_x.hi is not None else None
            if isinstance(lo, Fraction) and (hi is None or isinstance(hi, Fraction)):
                dom_s = RF.Interval(lo, hi)
        except S.Inconclusive:
            dom_s = None
    if dom_s is None:
        dom_s = RF.Interval(None, None)
    comp2 = S.subst(F, {"x": G})
    n2 = identity(ctx, R + "/inverse", ff, "hertz_to_scale(scale_to_hertz(s))", comp2, "s", dom_s, pos)
    # 3. strict monotonicity and continuity of both maps
    for f_, E, var, dom in ((ff, F, "x", dom_x), (gf, G, "s", dom_s)):
        ps = RF.pieces(E, var, dom, cc.strip_cond)
        ctx.need(ps, R, "no feasible piece of %s" % f_.name)
        for iv, leaf in ps:
            d = RF.monotone(leaf, var, iv, pos)
            if d == 1:
                ctx.ok(R + "/monotone", f_.loc(), "%s is strictly increasing on %s" % (f_.name, iv), {"piece": S.show(leaf)[:120]})
            elif d in (0, -1):
                ctx.bad(R + "/monotone", f_, f_.node, "%s is %s on %s (piece %s): the map is not strictly increasing there, so it "
                        "cannot be inverted" % (f_.name, "constant" if d == 0 else "decreasing", iv, S.show(leaf)[:100]),
                        "%s strictly increasing" % f_.name)
            else:
                raise AnalysisError("%s: monotonicity of %s on %s not decidable structurally: %s" % (R, f_.name, iv, S.show(leaf)[:160]))
        for (iv1, l1), (iv2, l2) in zip(ps, ps[1:]):
            ctx.need(iv1.hi is not None and iv1.hi == iv2.lo, R, "pieces of %s do not tile the domain: %s | %s" % (f_.name, iv1, iv2))
            b = iv1.hi
            v1, v2 = S.evaluate(l1, {var: b}), S.evaluate(l2, {var: b})
            ctx.check(isinstance(v1, Fraction) and v1 == v2, R + "/continuity", f_, f_.node,
                      "%s is continuous at its break-point %s = %s (both sides give %s)" % (f_.name, var, S._show_val(b), S._show_val(v1)),
                      "%s jumps at %s = %s: %s on the left, %s on the right" % (f_.name, var, S._show_val(b), S._show_val(v1), S._show_val(v2)))
        # the pieces cover the whole domain
        ctx.check(ps[0][0].lo == dom.lo and ps[-1][0].hi == dom.hi, R + "/continuity", f_, f_.node,
                  "the pieces of %s cover the whole domain %s" % (f_.name, dom), "pieces of %s cover only %s .. %s of %s" % (f_.name, ps[0][0].lo, ps[-1][0].hi, dom))
    # 4. anchors
    if c.name == "MelScaling":
        v = S.evaluate(F, {"x": Fraction(1000)})
        v = S._to_dec(v)
        ok = decimal.Decimal("999.98") <= v <= decimal.Decimal("1000.02")
        ctx.check(ok, R + "/anchor", ff, ff.node, "1000 Hz maps to %s mel, within 0.02 of 1000" % format(v, ".6f"),
                  "1000 Hz maps to %s mel; the published scale puts it at 1000 +- 0.02" % format(v, ".4f"))
        want = S.mul(S.lift(1127), S.call("log", S.add(S.ONE, S.truediv(S.sym("x"), S.lift(700)))))
        ctx.check(S.compare(F, want, domain={})["verdict"] == "equal", R + "/anchor", ff, ff.node, "mel is 1127 ln(1 + f/700)",
                  "hertz_to_scale is %s, not 1127 ln(1 + f/700)" % S.show(F))
    if c.name == "BarkScaling":
        z = S.sub(S.truediv(S.mul(S.lift(Fraction("26.81")), S.sym("x")), S.add(S.lift(1960), S.sym("x"))), S.lift(Fraction("0.53")))
        ps = RF.pieces(F, "x", dom_x, cc.strip_cond)
        ctx.check(len(ps) == 3, R + "/anchor", ff, ff.node, "the Bark map has three pieces (two end corrections)", "the Bark map has %d pieces on the domain" % len(ps))
        if len(ps) == 3:
            wants = [S.add(z, S.mul(S.lift(Fraction("0.15")), S.sub(S.lift(2), z))), z, S.add(z, S.mul(S.lift(Fraction("0.22")), S.sub(z, S.lift(Fraction("20.1")))))]
            names = ["z + 0.15 (2 - z) below 2 Bark", "z = 26.81 f/(1960+f) - 0.53 (Traunmueller)", "z + 0.22 (z - 20.1) above 20.1 Bark"]
            for (iv, leaf), w, nm in zip(ps, wants, names):
                ok = S.ratfunc(leaf).equals(S.ratfunc(w))
                ctx.check(ok, R + "/anchor", ff, ff.node, "on %s the Bark map is %s" % (iv, nm), "on %s the Bark map is %s, expected %s" % (iv, S.canon(leaf), nm))
            zm = RF.mobius_numeric(z, "x")
            b1, b2 = RF.solve_mobius(zm, Fraction(2)), RF.solve_mobius(zm, Fraction("20.1"))
            ctx.check(ps[0][0].hi == b1 and ps[1][0].hi == b2, R + "/anchor", ff, ff.node,
                      "the corrections switch at 2 and 20.1 Bark (%.2f Hz and %.2f Hz)" % (float(b1), float(b2)),
                      "break-points are at %s and %s Hz, not at the pre-images of 2 and 20.1 Bark" % (ps[0][0].hi, ps[1][0].hi))
    ctx.info.setdefault("closed_forms", {})[c.name] = {"hertz_to_scale": S.show(F)[:300], "scale_to_hertz": S.show(G)[:300]}
    ctx.floor(R + "/inverse", n1 + n2, 2)


def octave_validation(ctx, R="R-C19/OctaveScaling/validation"):
    """OctaveScaling(low_hz) raises ValueError exactly for low_hz <= 0: the path conditions of the constructor's raises
    (the constructor may be inherited, helpers are read through) are evaluated at values on both sides of zero"""
    prog = ctx.prog
    c = prog.cls("scales.OctaveScaling")
    init = prog.find_method(c, "__init__")
    what = "OctaveScaling rejects low_hz <= 0 with ValueError before storing it"
    if init is None or len(init.params) < 2:
        ctx.bad(R, c.methods.get("hertz_to_scale") or next(iter(c.methods.values())), c.node, "OctaveScaling has no constructor that takes (and so could validate) low_hz", what, robust=True)
        return
    par = init.params[1]
    decided = None
    try:
        ev = SymEval(prog, init, inline_self=True).run()
        guards = [g for g, st in ev.raises if astq.raise_type(prog, init, st) == "ValueError"]
        other = [g for g, st in ev.raises if astq.raise_type(prog, init, st) != "ValueError"]
        rows = []
        for v in (Fraction(-1000), Fraction(-1), Fraction(-1, 10**12), Fraction(0), Fraction(1, 10**12), Fraction(1, 2), Fraction(1), Fraction(20), Fraction(10**6)):
            gs = [S.subst(g, {par: S.lift(v)}) for g in guards]
            os_ = [S.subst(g, {par: S.lift(v)}) for g in other]
            if not all(g.is_const for g in gs + os_):
                rows = None
                break
            rows.append((v, any(S.truthy(g) for g in gs), any(S.truthy(g) for g in os_)))
        if rows is not None:
            wrong = [(v, r) for v, r, o in rows if (r != (v <= 0)) or o]
            decided = (not wrong, wrong, len(guards))
    except Exception:
        decided = None
    if decided is not None:
        ok, wrong, ng = decided
        if ok:
            ctx.ok(R, init.loc(), what, "%d ValueError raise(s); path conditions evaluated at 9 values of low_hz on both sides of 0" % ng)
        else:
            v, r = wrong[0]
            ctx.bad(R, init, init.node, "%s(low_hz=%s) %s" % (c.name, float(v), "raises although the value is positive" if v > 0 else
                                                             "is accepted: no ValueError is raised for this non-positive low_hz (the 1e-10 floor then hides the division by zero)"),
                    what, robust=True)
        return
    body = [s for s in init.node.body if not (isinstance(s, ast.Expr) and isinstance(s.value, ast.Constant))]
    first = body[0] if body else MISSING(None)
    ok = isinstance(first, ast.If) and astq.in_texts(first.test, ("low_hz<=0", "0>=low_hz", "notlow_hz>0",)) and \
        len(first.body) == 1 and isinstance(first.body[0], ast.Raise) and astq.raise_type(prog, init, first.body[0]) == "ValueError"
    ctx.check(ok, R, init, first if first is not None else init.node, what,
              "OctaveScaling.__init__ does not start with `if low_hz <= 0: raise ValueError`", structural=True)


def no_derived_state(ctx, R="R-C19/no-derived-state"):
    """The parameters of a scaling function are public, assignable attributes (documented as
    such); both maps must read them directly.  An attribute *computed* from a parameter in
    __init__ goes stale when the parameter is re-assigned, and the two maps stop being inverses."""
    prog = ctx.prog
    for c in [k for k in prog.subclasses(prog.cls("scales.ScalingFunction")) if prog.is_concrete(k)]:
        attrs = instance_attrs(prog, c)
        for meth in ("hertz_to_scale", "scale_to_hertz"):
            f = prog.own_method(c, meth)
            for n in f.body_nodes():
                if astq.is_self_attr(n, f.params[0]) and isinstance(n.ctx, ast.Load):
                    key = "self." + n.attr
                    if key in attrs:
                        val, verbatim, where = attrs[key]
                        ctx.check(verbatim or val.is_const, R, f, n,
                                  "%s.%s reads self.%s, which is a constructor parameter stored verbatim (or a class constant)" % (c.name, meth, n.attr),
                                  "%s.%s reads self.%s = %s, a value derived from a constructor parameter when the object is built; re-assigning the "
                                  "public parameter afterwards leaves it stale, so hertz_to_scale and scale_to_hertz use different anchors"
                                  % (c.name, meth, n.attr, S.show(val)[:80]))
        for f in c.methods.values():
            if f.name in ("__init__",):
                continue
            for attr, kind, node in __import__("pdsa.rules.c04", fromlist=["attr_writes"]).attr_writes(f):
                ctx.bad(R, f, node, "%s.%s writes self.%s: a scaling function must be a pure function of its parameters" % (c.name, f.name, attr),
                        "scaling functions keep no mutable state")
    ctx.ok(R, "src/pydrobert/speech/scales.py", "no scaling function method writes instance state")



def names(ctx, R="R-C19/names"):
    from .c08 import family_names_resolve
    family_names_resolve(ctx, R, "scales.ScalingFunction", {"linear": "LinearScaling", "octave": "OctaveScaling", "mel": "MelScaling", "bark": "BarkScaling"})



def stateless(ctx, R="R-C19/no-derived-state"):
    """both maps are functions of their argument and the (public, assignable) parameters only: no memo, no class / module state"""
    from .c20 import no_shared_state
    prog = ctx.prog
    for c in [k for k in prog.subclasses(prog.cls("scales.ScalingFunction")) if prog.is_concrete(k)]:
        for meth in ("hertz_to_scale", "scale_to_hertz"):
            f = prog.find_method(c, meth)
            if f is not None:
                no_shared_state(ctx, R, f, "%s.%s" % (c.name, meth))


def total_on_domain(ctx, R="R-C19/total"):
    """Neither map refuses a value of its domain: a raise whose condition can hold for a frequency in [0, 100 kHz] (or for the
    scale value of one) makes the round trip fail there."""
    prog = ctx.prog
    from ..symeval import SymEval
    for c in [k for k in prog.subclasses(prog.cls("scales.ScalingFunction")) if prog.is_concrete(k)]:
        if c.name in ("LinearScaling", "OctaveScaling"):
            continue  # parameterised domains: handled by the validation / assumption clauses
        try:
            ff, F = extract(prog, c, "hertz_to_scale", "x")
        except Exception:
            continue
        dom_x = RF.Interval(Fraction(0), DOM_HI)
        try:
            fp = RF.pieces(F, "x", dom_x, cc.strip_cond)
            lo = S.evaluate(fp[0][1], {"x": dom_x.lo})
            hi = S.evaluate(fp[-1][1], {"x": dom_x.hi})
            dom_s = RF.Interval(lo, hi) if isinstance(lo, Fraction) and isinstance(hi, Fraction) else None
        except Exception:
            dom_s = None
        for meth, var, dom in (("hertz_to_scale", "x", dom_x), ("scale_to_hertz", "s", dom_s)):
            f = prog.own_method(c, meth)
            if dom is None:
                continue
            ev = SymEval(prog, f, rename={f.params[1]: var}).run()
            for g, node in ev.raises:
                g2 = S.subst(g, {S.sym(f.params[1]): S.sym(var)})
                try:
                    sub = RF.test_interval(g2, var, dom)
                except Exception:
                    sub = "?"
                if sub == "?" or sub is None and False:
                    ctx.error(R, "cannot decide whether %s.%s can raise inside its domain: %s" % (c.name, meth, S.show(g2)[:100]))
                    continue
                feasible = sub is not None and (not isinstance(sub, list) or bool(sub))
                ctx.check(not feasible, R, f, node, "%s.%s raises for no value of its domain %s" % (c.name, meth, dom),
                          "%s.%s raises when %s, which holds on %s inside the domain %s: the round trip fails there" % (c.name, meth, S.show(g2)[:80], sub, dom), robust=True)
            if not ev.raises:
                ctx.ok(R, f.loc(), "%s.%s raises for no value of its domain" % (c.name, meth))



def piecewise_dtype(ctx, R="R-C19/piecewise-dtype"):
    """numpy.piecewise returns an array of the dtype of its first argument.  A map that feeds it the caller's value as it came
    (np.asarray(x) keeps an integer an integer) truncates every piece to an integer for integer arguments - scale_to_hertz(1)
    is then the value for 0.x truncated - so the first argument must be made floating first."""
    prog = ctx.prog
    n = 0
    for c in [k for k in prog.subclasses(prog.cls("scales.ScalingFunction")) if prog.is_concrete(k)]:
        for meth in ("hertz_to_scale", "scale_to_hertz"):
            f = prog.find_method(c, meth)
            if f is None:
                continue
            for call in astq.func_calls(f):
                if (prog.qualify(f.module, call.func, f) or "") != "numpy.piecewise" or not call.args:
                    continue
                n += 1
                a = call.args[0]
                # follow one local definition
                exprs = [a]
                if isinstance(a, ast.Name):
                    exprs = [st.value for st in f.body_nodes() if isinstance(st, ast.Assign) and any(astq.is_name(t, a.id) for t in st.targets)] or [a]

                def floating(e):
                    if isinstance(e, ast.Call):
                        q = prog.qualify(f.module, e.func, f) or ""
                        dt = astq.kw(e, "dtype") or (e.args[1] if len(e.args) > 1 and q in ("numpy.asarray", "numpy.array", "numpy.asanyarray") else None)
                        if dt is not None and astq.text(dt) in ("float", "np.float64", "numpy.float64", "np.double", "'float64'", "np.float_"):
                            return True
                        if isinstance(e.func, ast.Attribute) and e.func.attr == "astype" and e.args and astq.text(e.args[0]) in ("float", "np.float64", "numpy.float64"):
                            return True
                        if astq.is_name(e.func, "float"):
                            return True
                    if isinstance(e, ast.BinOp) and any(isinstance(x, ast.Constant) and isinstance(x.value, float) for x in (e.left, e.right)):
                        return True
                    return False
                ctx.check(all(floating(e) for e in exprs), R, f, call, "the value handed to numpy.piecewise is floating (the result takes its dtype)",
                          "%s.%s passes %s to numpy.piecewise; for an integer argument every piece is truncated to an integer, so the map is neither the "
                          "published formula nor invertible there" % (c.name, meth, astq.text(exprs[0])[:50]), robust=True)
    if not n:
        ctx.ok(R, "src/pydrobert/speech/scales.py", "no numpy.piecewise in the scale maps (scalar formulas keep Python float arithmetic)")
