"""C15 - Deltas and Stack produce the documented layout and values (structural clauses)."""

import ast
from fractions import Fraction

from .. import astq
from .. import sym as S
from ..eff import Effects
from ..dt import DT
from ..report import MISSING
from ..model import AnalysisError
from ..symeval import SymEval
from . import cli_common as cc

LEVEL = "other"
TECHNIQUE = ("effect analysis with the in_place flag, dtype rules, closed forms of the delta-filter recursion and of the "
             "pad/crop and stack arithmetic (quasi-affine, exact), structural axis rules")
EXPLANATION = (
    "Decides: Deltas.apply performs no in-place write on its input and Stack.apply copies the 2-D input unless in_place "
    "(after np.pad the array is fresh); each delta block is allocated in and cast back to the input dtype while the "
    "correlation runs in float64, and the first block is the input; the filter list starts with [1] and filter d+1 is "
    "convolve(filter d, base) with base (k - W)/sum (k - W)^2, k = 0..2W, num_deltas times (the Kaldi recursion); the "
    "pad width (len-1)//2 on both sides and the crop [len-1 : -len+1] of the 'full' correlation give an output as long "
    "as the input for every odd filter length; concatenate/stack is selected by `concatenate` and the target axis is "
    "handed to NumPy unmodified (NumPy normalises it against the rank of the *result*); Stack normalises both axes "
    "modulo the rank, rejects equal axes, pads the whole sequence only on the right of the time axis by "
    "num_vectors - T % num_vectors (padded length divisible), drops T % num_vectors frames otherwise. Does NOT decide "
    "equality of Stack's 2-D fast path and N-D path (a statement about memory layout), nor Kaldi value equivalence along "
    "arbitrary axes.")


def run(ctx):
    ctx.rule(readonly)
    ctx.rule(deltas_dtype)
    ctx.rule(kaldi_filters)
    ctx.rule(crop)
    ctx.rule(blocks_are_filtered)
    ctx.rule(axes)
    ctx.rule(stack)
    ctx.rule(stack_layout)
    ctx.rule(stateless)


def _m(prog, cls, name):
    return prog.own_method(prog.cls("post." + cls), name)


def readonly(ctx, R="R-C15-readonly"):
    prog = ctx.prog
    eff = Effects(prog, flag="in_place")
    for cls in ("Deltas", "Stack"):
        f = _m(prog, cls, "apply")
        ws, res = eff.writes_to(f, f.params[1])
        bad = [w for w in ws if False in w.flags]
        ctx.check(not bad, R, f, bad[0].stmt if bad else f.node, "%s.apply does not write through its input unless in_place" % cls,
                  "%s.apply can modify the caller's array with in_place=False (%s)" % (cls, ", ".join(sorted({w.how for w in bad}))), robust=True)
    from ..eff import check_result_fresh
    for cls in ("Deltas", "Stack"):
        check_result_fresh(ctx, R, _m(prog, cls, "apply"))
    # Stack: the 2-D path copies unless in_place
    f = _m(prog, "Stack", "apply")
    cps = [n for n in f.body_nodes() if isinstance(n, ast.Assign) and astq.eq_text(n.value, "features.copy()")]
    pm = astq.parents(f)
    ok = False
    if len(cps) == 1:
        g = [astq.text(a.test) for a in astq.ancestors(pm, cps[0]) if isinstance(a, ast.If)]
        ok = g[:1] == ["not in_place"]
    ctx.check(ok, R, f, cps[0] if cps else MISSING(f.node), "the 2-D path of Stack.apply works on a copy unless in_place",
              "Stack.apply's 2-D path does not copy under `not in_place` (its result would be a view of the caller's array)", structural=True)
    # in_place = True only after the array was replaced by np.pad's fresh result
    sets = [n for n in f.body_nodes() if isinstance(n, ast.Assign) and astq.is_name(n.targets[0], "in_place")]
    for s_ in sets:
        blk = None
        for a in astq.ancestors(pm, s_):
            if isinstance(a, ast.If):
                blk = a.body
                break
        before = blk[: blk.index(s_)] if blk and s_ in blk else []
        ok = any(isinstance(b, ast.Assign) and astq.is_name(b.targets[0], "features") and isinstance(b.value, ast.Call)
                 and prog.qualify(f.module, b.value.func, f) == "numpy.pad" for b in before)
        ctx.check(ok, R, f, s_, "in_place is switched on only after features was replaced by np.pad's fresh array",
                  "in_place is set to True although features may still be the caller's array", robust=True)


def deltas_dtype(ctx, R="R-C15-dtype"):
    prog = ctx.prog
    f = _m(prog, "Deltas", "apply")
    feats = f.params[1]
    dt = DT(prog, f, array_params=[feats])
    rets = astq.returns_of(f)
    ctx.need(rets, R, "Deltas.apply has no return")
    for r in rets:
        tags = dt.of(r.value)
        ctx.check(tags == {"in:" + feats}, R, f, r, "the result has the input's dtype on this return",
                  "the result's dtype is %s, not the input's" % sorted(tags), structural="unknown" in tags)
    corr = [c for c in astq.func_calls(f) if prog.qualify(f.module, c.func, f) == "numpy.correlate"]
    ctx.need(len(corr) == 1, R, "np.correlate call not found in Deltas.apply")
    c = corr[0]
    ctx.check(dt.of(c.args[0]) == {"f64"}, R, f, c, "the correlation runs on a float64 copy of each slice",
              "the correlated slice has dtype %s, not float64" % sorted(dt.of(c.args[0])), structural="unknown" in dt.of(c.args[0]))
    ok = len(c.args) == 3 and astq.const_str(c.args[2]) == "full"
    ctx.check(ok, R, f, c, "each slice is correlated in 'full' mode", "correlation call is %s" % astq.text(c)[:80])
    # the padded operand: np.pad(...) directly, or through a local / a slice of it
    pm0 = astq.parents(f)
    ev = SymEval(prog, f, inline_props=False).run()
    stc = astq.enclosing_stmt(pm0, c)
    ctx.need(ev.reached(stc), R, "the correlation is not reached by forward substitution")
    opnd = ev.eval_at(stc, c.args[0])
    filt_e = ev.eval_at(stc, c.args[1])
    pads = [x for x in S.walk(opnd) if cc.is_call(x, "np.pad")]
    if not pads:
        raise AnalysisError("%s: the correlated operand does not come from np.pad(...): idiom not modelled" % R)
    pd = pads[0]
    ctx.need(len(pd.args) >= 4 and cc.is_call(pd.args[2], "tuple") and len(pd.args[2].args) == 3, R, "np.pad widths are not a pair")
    flen = S.sym("flen")
    wl = S.subst(pd.args[2].args[1], {S.call("len", filt_e): flen})
    wr = S.subst(pd.args[2].args[2], {S.call("len", filt_e): flen})
    want_w = S.floordiv(S.sub(flen, S.ONE), S.lift(2))
    foreign = [x for x in S.walk(wl) if cc.is_call(x, "len")] + [x for x in S.walk(wr) if cc.is_call(x, "len")]
    if foreign:
        ctx.bad(R, f, stc, "each vector is padded by a width computed from %s, not from the filter it is then correlated with (%s): numpy pad modes whose "
                "values depend on the pad width (linear_ramp, a callable) then give different values near the edges than padding by the "
                "filter's own half-width, even if the surplus is sliced off afterwards" % (S.show(foreign[0])[:60], S.show(filt_e)[:40]),
                "each slice is padded by its own filter's half-width")
    else:
        okw = S.compare(wl, want_w, domain={"flen": [Fraction(3), Fraction(5), Fraction(7)]})["verdict"] == "equal" and \
            S.compare(wr, want_w, domain={"flen": [Fraction(3), Fraction(5), Fraction(7)]})["verdict"] == "equal"
        ctx.check(okw, R, f, stc, "each slice is padded by (len(filt) - 1) // 2 on both sides, filt being the filter it is correlated with",
                  "pad widths are (%s, %s)" % (S.show(wl)[:60], S.show(wr)[:60]))
        ctx.check(opnd == pd, R, f, stc, "the padded slice itself is what gets correlated", "the correlated operand is %s" % S.show(opnd)[:100])
    kws = {a_.args[0][3:]: a_.args[1] for a_ in pd.args[4:] if a_.op == "call" and isinstance(a_.args[0], str) and a_.args[0].startswith("kw:")}
    padcalls = [x for x in astq.func_calls(f) if prog.qualify(f.module, x.func, f) == "numpy.pad"]
    okm = pd.args[3] == S.sym("self._pad_mode") and len(padcalls) == 1 and any(k.arg is None and astq.text(k.value) == "self._pad_kwargs" for k in padcalls[0].keywords)
    ctx.check(okm, R, f, padcalls[0] if padcalls else stc, "the configured pad mode and keyword arguments are used", "padding call is %s" % S.show(pd)[:120])
    # the cropped correlation is cast back to the input dtype before it is stored
    pm = astq.parents(f)
    st = astq.enclosing_stmt(pm, c)
    ctx.need(isinstance(st, ast.Assign), R, "the correlation result is not stored by an assignment")
    # (a float64 slice stored into an array of the input's dtype is cast by the store itself: what matters is the array's dtype)
    stored_tags = dt.of(st.value)
    tgt_arr = st.targets[0].value if isinstance(st.targets[0], ast.Subscript) else None
    arr_tags = dt.of(tgt_arr) if tgt_arr is not None else set()
    ok_store = stored_tags == {"in:" + feats} or arr_tags == {"in:" + feats}
    ctx.check(ok_store, R, f, st, "each filtered slice ends up in the input dtype (cast back, or stored into an array of that dtype)",
              "the filtered slice (dtype %s) is stored into an array of dtype %s" % (sorted(stored_tags), sorted(arr_tags)),
              structural=("unknown" in stored_tags or "unknown" in arr_tags))
    # which filters: orders 1..num_deltas in order, order 0 is the input itself
    loops = [n for n in f.body_nodes() if isinstance(n, ast.For) and "self._filts[1:]" in astq.text(n.iter).replace(" ", "")]
    if len(loops) != 1:
        raise AnalysisError("%s: no loop over self._filts[1:]: cannot tell that one block per delta order is produced in order (idiom not modelled)" % R)
    ctx.ok(R, f.loc(loops[0]), "one block per delta order, in order (filters 1..num_deltas)")


def kaldi_filters(ctx, R="R-C15-kaldi-filters"):
    prog = ctx.prog
    init = _m(prog, "Deltas", "__init__")
    ev = SymEval(prog, init).run()
    f0 = ev.snap  # unused
    first = [n for n in init.body_nodes() if isinstance(n, ast.Assign) and astq.is_self_attr(n.targets[0], "self", "_filts")]
    ok = len(first) == 1 and astq.in_texts(first[0].value, ("[np.ones(1,dtype=np.float64)]", "[np.ones(1)]", "[np.ones(1,dtype=float)]", "[np.ones(1,np.float64)]",
                                                               "[np.array([1.0])]", "[np.ones((1,),dtype=np.float64)]", "[np.ones((1,))]"))
    ctx.check(ok, R, init, first[0] if first else MISSING(init.node), "the filter list starts with [1]", "filter list starts as %s" % (astq.text(first[0].value) if first else None))
    base = ev.env.get("delta_filter")
    ctx.need(base is not None, R, "delta_filter not found")
    W = S.sym("context_window")
    ar = S.call("np.arange", S.add(S.ONE, S.mul(S.lift(2), W)), S.call("kw:dtype", S.sym("numpy.float64")))
    centred = S.sub(ar, W)
    want = S.truediv(centred, S.call("np.sum", S.power(centred, S.lift(2))))
    r = S.compare(base, want, domain={})
    ctx.check(r["verdict"] == "equal", R, init, init.node, "the base filter is (k - W) / sum_k (k - W)^2 for k = 0..2W",
              "base delta filter is %s" % S.show(base)[:160])
    loops = [n for n in init.body_nodes() if isinstance(n, ast.For)]
    # the list holds one filter before the loop and gains one per round, so in round d the last one is filter d: [-1] is [d]
    idx_forms = [loops[0].target.id, "-1", "len(self._filts)-1"] if len(loops) == 1 and isinstance(loops[0].target, ast.Name) else []
    ok = len(loops) == 1 and astq.text(loops[0].iter) == "range(num_deltas)" and len(loops[0].body) == 1 and \
        astq.text(loops[0].body[0]).replace(" ", "") in ["self._filts.append(np.convolve(self._filts[%s],delta_filter))" % i_ for i_ in idx_forms]
    ctx.check(ok, R, init, loops[0] if loops else MISSING(init.node), "filter d+1 = convolve(filter d, base), num_deltas times (Kaldi's recursion)",
              "filter recursion is %s" % (astq.text(loops[0])[:120] if loops else None))


def crop(ctx, R="R-C15-crop"):
    prog = ctx.prog
    f = _m(prog, "Deltas", "apply")
    ev = SymEval(prog, f)
    ev.env = {}
    # the pad width actually applied on each side of the slice that is correlated (read off the np.pad call)
    evf = SymEval(prog, f, inline_props=False).run()
    corr_calls = [c_ for c_ in astq.func_calls(f) if prog.qualify(f.module, c_.func, f) == "numpy.correlate"]
    ctx.need(len(corr_calls) == 1, R, "np.correlate call not found")
    stc = astq.enclosing_stmt(astq.parents(f), corr_calls[0])
    opnd = evf.eval_at(stc, corr_calls[0].args[0])
    filt_e = evf.eval_at(stc, corr_calls[0].args[1])
    pads = [x for x in S.walk(opnd) if cc.is_call(x, "np.pad")]
    ctx.need(pads and cc.is_call(pads[0].args[2], "tuple"), R, "np.pad not found on the correlated operand")
    ctx.need(opnd == pads[0], R, "the correlated operand is a slice of the padded vector: effective pad width not modelled")
    m_e = S.subst(pads[0].args[2].args[1], {S.call("len", filt_e): S.sym("flen")})
    ctx.need(not any(cc.is_call(x, "len") for x in S.walk(m_e)), R, "pad width is not a function of the correlated filter's length")
    sub = [n for n in f.body_nodes() if isinstance(n, ast.Subscript) and isinstance(n.slice, ast.Slice) and isinstance(n.value, ast.Call)
           and prog.qualify(f.module, n.value.func, f) == "numpy.correlate"]
    ctx.need(len(sub) == 1, R, "crop of the correlation not found")
    st_sub = astq.enclosing_stmt(astq.parents(f), sub[0])
    lo = S.subst(evf.eval_at(st_sub, sub[0].slice.lower), {S.call("len", filt_e): S.sym("flen"), S.call("len", S.sym("filt")): S.sym("flen")})
    hi = S.subst(evf.eval_at(st_sub, sub[0].slice.upper), {S.call("len", filt_e): S.sym("flen"), S.call("len", S.sym("filt")): S.sym("flen")})
    ctx.need(set(S.symbols(lo)) | set(S.symbols(hi)) <= {"flen"}, R, "crop bounds are not functions of the filter length: %s, %s" % (S.show(lo)[:60], S.show(hi)[:60]))
    n, flen, m = S.sym("n"), S.sym("flen"), S.sym("m")
    # full correlation of a length n+2*mo signal with a length-flen filter has n + 2*mo + flen - 1 samples;
    # slice [lo : hi] with hi negative keeps (total + hi - lo)
    total = S.add(S.add(n, S.mul(S.lift(2), m_e)), S.sub(flen, S.ONE))
    kept = S.sub(S.add(total, hi), lo)
    kept_odd = S.subst(kept, {"flen": S.add(S.mul(S.lift(2), m), S.ONE)})
    r = S.compare(kept_odd, n, domain={"n": [Fraction(v) for v in (0, 1, 5)], "m": [Fraction(v) for v in (1, 2, 3)]})
    if r["verdict"] == "equal":
        ctx.ok(R, f.loc(sub[0]), "pad (len-1)//2 + 'full' correlation + crop [len-1 : -len+1] keeps exactly the input length for every odd filter length",
               {"how": r["how"]})
    elif r["verdict"] == "differ":
        ctx.bad(R, f, astq.enclosing_stmt(astq.parents(f), sub[0]), "padding and cropping are inconsistent: an input of n frames yields %s frames (e.g. at %s: %s)"
                % (S.show(kept_odd), r["witness"], r["values"][0]), "output length equals input length")
    else:
        raise AnalysisError("%s: %s" % (R, r["reason"]))
    # the crop starts at the first fully-overlapping lag of the *padded* signal: lo == flen - 1
    r2 = S.compare(lo, S.sub(flen, S.ONE), domain={"flen": [Fraction(3), Fraction(5)]})
    ctx.check(r2["verdict"] == "equal", R, f, sub[0], "the crop starts at lag len(filt) - 1", "crop starts at %s" % S.show(lo))


def blocks_are_filtered(ctx, R="R-C15-crop"):
    """Every block of the result other than the input itself is produced by the padded correlation: a block of constants
    (zeros for inputs "too short to change") is the documented value only for edge padding - with constant, linear_ramp or a
    callable pad mode the padded neighbours differ from the frame and the deltas are not zero."""
    prog = ctx.prog
    f = _m(prog, "Deltas", "apply")
    feats = f.params[1]
    apps = [c_ for c_ in astq.func_calls(f) if astq.attr_call(c_, "append") and len(c_.args) == 1]
    n = 0
    for c_ in apps:
        a = c_.args[0]
        consts = [x for x in ast.walk(a) if isinstance(x, ast.Call) and (prog.qualify(f.module, x.func, f) or "") in (
            "numpy.zeros_like", "numpy.zeros", "numpy.ones_like", "numpy.ones", "numpy.full", "numpy.full_like")]
        if consts and not any(isinstance(x, ast.Call) and (prog.qualify(f.module, x.func, f) or "") == "numpy.correlate" for x in ast.walk(a)):
            n += 1
            ctx.bad(R, f, c_, "a block of the result is %s, not the padded correlation of the features with the delta filter: for pad modes whose "
                    "padding differs from the edge frame (constant, linear_ramp, a callable) the documented deltas of a short input are "
                    "not constant" % astq.text(a)[:60], "every delta block is computed by the correlation with the delta filter", robust=True)
    if not n:
        ctx.ok(R, f.loc(), "every delta block is computed by the correlation with the delta filter (no constant blocks)")


def axes(ctx, R="R-C15-axes"):
    prog = ctx.prog
    f = _m(prog, "Deltas", "apply")
    rets = astq.returns_of(f)
    pm = astq.parents(f)
    kinds = {}
    for r in rets:
        v = r.value
        q = prog.qualify(f.module, v.func, f) if isinstance(v, ast.Call) else None
        g = [a for a in astq.ancestors(pm, r) if isinstance(a, ast.If)]
        branch = None
        if g and astq.text(g[0].test) == "self.concatenate":
            branch = "concat" if any(x is r for s_ in g[0].body for x in ast.walk(s_)) else "stack"
        kinds[branch] = (q, [astq.text(a) for a in v.args] if isinstance(v, ast.Call) else None, r)
    for branch, want in (("concat", "numpy.concatenate"), ("stack", "numpy.stack")):
        q, args, r = kinds.get(branch, (None, None, None))
        if q is None:
            # re-implemented result assembly: look for the contradiction instead of the idiom
            _axis_contradiction(ctx, R, f)
            raise AnalysisError("%s: result assembly is not np.concatenate / np.stack(delta_feats, self._target_axis); idiom not modelled" % R)
        ctx.check(q == want and args == ["delta_feats", "self._target_axis"], R, f, r,
                  "%s: blocks are joined by %s(delta_feats, self._target_axis) - the axis is handed to NumPy unmodified" % (branch, want.replace("numpy", "np")),
                  "with concatenate=%s the result is %s(%s)" % (branch == "concat", q, args))
    init = _m(prog, "Deltas", "__init__")
    st = {astq.text(n.targets[0]): astq.text(n.value) for n in init.body_nodes() if isinstance(n, ast.Assign) and len(n.targets) == 1}
    ctx.check(st.get("self._target_axis") == "target_axis" and st.get("self.concatenate") in ("bool(concatenate)", "concatenate"), R, init, init.node,
              "target_axis and concatenate are stored as given", "stored as %s / %s" % (st.get("self._target_axis"), st.get("self.concatenate")))
    oa = [n for n in f.body_nodes() if isinstance(n, ast.Assign) and astq.is_name(n.targets[0], "other_axes")]
    ok = len(oa) == 1 and astq.eq_text(oa[0].value, "tuple((idxforidxinrange(features.ndim)ifidx!=axis%features.ndim))")
    ctx.check(ok, R, f, oa[0] if oa else MISSING(f.node), "the filtered axis is normalised modulo the input's rank", "other_axes is %s" % (astq.text(oa[0].value) if oa else None), structural=True)


def _axis_contradiction(ctx, R, f):
    """np.stack counts a negative target axis against rank+1.  Under concatenate=False any
    index computed as target_axis + ndim or target_axis % ndim (rank of the *input*) is wrong."""
    prog = ctx.prog
    ev = SymEval(prog, f, seed={"self.concatenate": False}, inline_props=False).run()
    T = S.sym("self._target_axis")
    feats = f.params[1]
    nd = [S.sym(feats + ".ndim"), S.call("len", S.sym(feats + ".shape"))]
    seen = []
    pool = list(ev.env.values()) + [v for g, v, n in ev.returns]
    for c, g, env in ev.calls:
        pool.extend(env.values())
    bad = None
    for e in pool:
        if not isinstance(e, S.E):
            continue
        for x in S.walk(e):
            if x.op in ("add", "mod") and T in list(S.walk(x)):
                for n in nd:
                    for want in (S.add(T, n), S.mod(T, n)):
                        try:
                            if x.op == want.op and S.compare(x, want, domain={})["verdict"] == "equal":
                                bad = x
                        except Exception:
                            pass
    if bad is not None:
        ctx.bad(R, f, f.node, "with concatenate=False a negative target_axis is normalised as %s, i.e. against the rank of the input; "
                "np.stack counts it against the rank of the result (input rank + 1), so target_axis=-1 would put the delta axis before "
                "the last input axis" % S.show(bad), "negative target axis is relative to the result's rank")


def stack(ctx, R="R-C15-stack"):
    prog = ctx.prog
    f = _m(prog, "Stack", "apply")
    feats = f.params[1]
    a1 = [n for n in f.body_nodes() if isinstance(n, ast.Assign) and astq.is_name(n.targets[0], "axis")]
    a2 = [n for n in f.body_nodes() if isinstance(n, ast.Assign) and astq.is_name(n.targets[0], "time_axis")]
    ok = len(a1) == 1 and astq.text(a1[0].value).replace(" ", "") == "axis%%%s.ndim" % feats and len(a2) == 1 and \
        astq.text(a2[0].value).replace(" ", "") == "self.time_axis%%%s.ndim" % feats
    ctx.check(ok, R, f, a1[0] if a1 else MISSING(f.node), "feature and time axes are normalised modulo the rank", "axis normalisation is %s / %s" %
              (astq.text(a1[0].value) if a1 else None, astq.text(a2[0].value) if a2 else None))
    rs = [r for r in astq.raises_of(f)]
    pm = astq.parents(f)
    ok = any(astq.eq_text(a.test, "axis==time_axis") for r in rs for a in astq.ancestors(pm, r) if isinstance(a, ast.If))
    ctx.check(ok, R, f, rs[0] if rs else MISSING(f.node), "equal feature and time axes are rejected", "no raise under axis == time_axis")
    ev = SymEval(prog, f, seed={"self._pad_mode": "edge"}, rename={"self.num_vectors": "nv"}, inline_props=False).run()
    # padding of the whole sequence, on the right of the time axis only
    pads = [c for c in astq.func_calls(f) if prog.qualify(f.module, c.func, f) == "numpy.pad"]
    ctx.check(len(pads) == 1 and astq.is_name(pads[0].args[0], feats), R, f, pads[0] if pads else MISSING(f.node),
              "the whole sequence is padded (modes such as reflect / symmetric / wrap / mean look at earlier frames)",
              "np.pad is applied to %s, not to the whole feature tensor; padding modes that depend on earlier frames give different frames"
              % (astq.text(pads[0].args[0]) if pads else None))
    if pads:
        st = astq.enclosing_stmt(pm, pads[0])
        pw = [n for n in f.body_nodes() if isinstance(n, ast.Assign) and isinstance(n.targets[0], ast.Subscript) and astq.is_name(n.targets[0].value, "padding")]
        ok = len(pw) == 1 and astq.text(pw[0].targets[0].slice) == "time_axis" and astq.eq_text(pw[0].value, "(0,self.num_vectors-rem)")
        ctx.check(ok, R, f, pw[0] if pw else MISSING(st), "only the right end of the time axis is padded, by num_vectors - T % num_vectors",
                  "pad widths are %s" % (astq.text(pw[0]) if pw else None))
        ok = astq.text(pads[0].args[2]) == "self._pad_mode" and any(k.arg is None and astq.text(k.value) == "self._pad_kwargs" for k in pads[0].keywords)
        ctx.check(ok, R, f, pads[0], "the configured mode and keyword arguments are used", "np.pad is called as %s" % astq.text(pads[0])[:100])
    T, nv = S.sym("T"), S.sym("nv")
    rem = S.mod(T, nv)
    padded = S.cond(rem, S.add(T, S.sub(nv, rem)), T)
    r = S.compare(S.mod(padded, nv), S.ZERO, domain={"T": [Fraction(v) for v in range(0, 9)], "nv": [Fraction(v) for v in (1, 2, 3, 4)]})
    ctx.check(r["verdict"] in ("equal",) or (r["verdict"] == "unknown"), R, f, f.node, "T + (nv - T % nv) is divisible by nv whenever T % nv != 0 (checked on a witness grid)")
    nt = [n for n in f.body_nodes() if isinstance(n, ast.Assign) and astq.text(n.targets[0]).replace(" ", "").strip("()") == "nT,nF"]
    ok = len(nt) == 1 and astq.eq_text(nt[0].value, "(T//self.num_vectors,F*self.num_vectors)")
    ctx.check(ok, R, f, nt[0] if nt else MISSING(f.node), "output has T // num_vectors frames of F * num_vectors coefficients", "nT, nF = %s" % (astq.text(nt[0].value) if nt else None))
    tt = [n for n in f.body_nodes() if isinstance(n, ast.Assign) and astq.is_name(n.targets[0], "T") and "nT" in astq.text(n.value)]
    ctx.check(len(tt) == 1 and astq.eq_text(tt[0].value, "nT*self.num_vectors"), R, f, tt[0] if tt else MISSING(f.node),
              "an incomplete final run is dropped (T := nT * num_vectors)", structural=True)
    # (the movement of the data itself - 2-D fast path and N-D path alike - is decided by R-C15-stack-layout)
    init = _m(prog, "Stack", "__init__")
    rs = astq.raises_of(init)
    ok = any(astq.eq_text(a.test, "num_vectors<1") for r_ in rs for a in astq.ancestors(astq.parents(init), r_) if isinstance(a, ast.If))
    ctx.check(ok, R, init, init.node, "num_vectors < 1 is rejected")


def stack_layout(ctx, R="R-C15-stack-layout"):
    """Where every element of Stack.apply's result comes from, for every rank 2..4, every (possibly negative) time axis
    and feature axis: output[.., t', .., f', ..] must be input[.., t' * k + f' // F, .., f' % F, ..] - the time axis keeps
    the run number, the feature axis is (position in the run, coefficient) in that order, every other axis is untouched."""
    from .. import layout as LY
    prog = ctx.prog
    f = _m(prog, "Stack", "apply")
    feats, axisp, inpl = f.params[1], f.params[2], f.params[3]
    n_cfg = 0
    reported = set()
    for rank in (2, 3, 4):
        for ta_raw in range(-rank, rank):
            for ax_raw in range(-rank, rank):
                ta, ax = ta_raw % rank, ax_raw % rank
                if ta == ax:
                    continue
                for in_place in (False, True):
                    lay = LY.Layout(prog, f, rank, {axisp: ax_raw, inpl: in_place},
                                    {"time_axis": ta_raw, "num_vectors": LY.Mono.sym("k"), "_pad_mode": None, "_pad_kwargs": {}}, run_axis=ta)
                    lay.env[feats] = lay.input
                    cfg = "rank %d, time_axis=%d, axis=%d, in_place=%s" % (rank, ta_raw, ax_raw, in_place)
                    try:
                        res = lay.run()
                    except LY.ScrambledError as e:
                        key = str(e)
                        if key not in reported:
                            reported.add(key)
                            ctx.bad(R, f, f.node, "for %s: %s" % (cfg, e), "every element of the stacked result comes from the right input element")
                        continue
                    except LY.Raised:
                        ctx.bad(R, f, f.node, "for %s Stack.apply raises although the time and feature axes differ" % cfg, "valid axis combinations are accepted")
                        continue
                    n_cfg += 1
                    want = []
                    for a in range(rank):
                        if a == ta:
                            want.append(((ta, "hi"),))
                        elif a == ax:
                            want.append(((ta, "lo"), (ax, "all")))
                        else:
                            want.append(((a, "all"),))
                    if not isinstance(res, LY.Arr):
                        raise AnalysisError("%s: Stack.apply returns %r for %s" % (R, res, cfg))
                    if res.axes == want and not res.fixed:
                        continue
                    key = (tuple(res.axes), rank, ta, ax)
                    if key in reported:
                        continue
                    reported.add(key)

                    def show(axes):
                        def dg(d):
                            if isinstance(d[1], tuple):
                                return "%s(in%d, %r)" % ("block" if d[1][0] == "blk" else "offset", d[0], d[1][1])
                            return {"all": "in%d" % d[0], "hi": "run(in%d)" % d[0], "lo": "pos(in%d)" % d[0]}[d[1]]
                        return "[" + ", ".join("x".join(dg(d) for d in a_) for a_ in axes) + "]"
                    ctx.bad(R, f, f.node, "for %s the result's axes are %s but stacking requires %s (run = index // num_vectors, pos = index %% num_vectors along "
                            "the time axis; the feature axis must be position-major): elements end up at the wrong place although the shape is as documented"
                            % (cfg, show(res.axes), show(want)), "every element of the stacked result comes from the right input element")
    ctx.floor(R, n_cfg, 100)
    ctx.ok(R, f.loc(), "%d (rank, time axis, feature axis, in_place) combinations: the result is [.., run, .., (pos, coeff), ..] in every one" % n_cfg)


def stateless(ctx, R="R-C15-stateless"):
    """Deltas.apply / Stack.apply are functions of (configuration, input, axis): nothing is remembered between calls"""
    from .c20 import no_shared_state
    for cname in ("Deltas", "Stack"):
        f = _m(ctx.prog, cname, "apply")
        no_shared_state(ctx, R, f, "%s.apply" % cname)
