"""C03 - short-integration coefficients equal their documented definition (structural clauses)."""

import ast

from .. import astq
from .. import sym as S
from ..dt import DT
from ..report import MISSING
from ..model import AnalysisError
from ..symeval import SymEval
from . import cli_common as cc
from . import stft_common as sc
from .c01 import si_finalize

LEVEL = "other"
TECHNIQUE = ("dtype lattice (NEP 50) on every value reaching the forward transforms, sibling agreement of the four "
             "transform branches (pairing and explicit length), structural rules on filter preparation, log floor and the "
             "finalize frame-count closed form")
EXPLANATION = (
    "Decides on compute.ShortIntegrationFrameComputer: every buffer handed to _compute_dft is float64 / complex128 on all "
    "paths (so the complex128 assumptions of the transform helpers hold for float32 input under NumPy >= 2); every array "
    "returned by compute_chunk / finalize is allocated with the dtype of the utterance's first chunk and non-floating "
    "input raises ValueError before any state is touched; the forward and inverse transforms are chosen under the same "
    "predicate on (USE_FFTPACK, is_real), are rfft<->irfft / fft<->ifft pairs and the real pair passes the DFT size "
    "explicitly (an odd size cannot be inferred from a half spectrum); every filter and the energy impulse go through "
    "the same roll -> clamp [:max_support] -> transform chain, the impulse sits at the translation index, the window has "
    "2 x frame_shift samples split (2, frame_shift); the log is floored at LOG_FLOOR_VALUE under use_log; finalize owes "
    "(buffered + shift//2)//shift frames. Does NOT decide numerical equality with the convolution definition.")


def run(ctx):
    ctx.rule(dtype_in)
    ctx.rule(dtype_out)
    ctx.rule(full_keeps_dtype)
    ctx.rule(chunk_dtype_fixed_point)
    ctx.rule(no_module_state)
    ctx.rule(fft_pairing)
    ctx.rule(prep)
    ctx.rule(logfloor)
    ctx.rule(power)
    ctx.rule(_default_window)
    ctx.rule(_fresh_buffers)
    ctx.rule(energy_impulse)
    ctx.rule(si_finalize, "R-C03-frame-count")
    ctx.rule(log_floor_live)
    ctx.rule(any_layout)


def _si(prog):
    return prog.cls("compute.ShortIntegrationFrameComputer")


def _attr_tags(prog, c):
    """dtype tags of the instance's array attributes, from their allocations in __init__"""
    init = prog.own_method(c, "__init__")
    dt = DT(prog, init)
    tags = {}
    for n in init.body_nodes():
        if isinstance(n, ast.Assign) and len(n.targets) == 1 and astq.is_self_attr(n.targets[0], init.params[0]):
            tags[n.targets[0].attr] = dt.of(n.value)
    return tags


def dtype_in(ctx, R="R-C03-dtype-in"):
    prog = ctx.prog
    c = _si(prog)
    tags = _attr_tags(prog, c)
    dft = prog.own_method(c, "_compute_dft")
    n = 0
    for f in c.methods.values():
        calls = [x for x in astq.func_calls(f) if astq.attr_call(x, "_compute_dft") and astq.is_name(x.func.value, f.params[0])]
        if not calls:
            continue
        arrs = [p for p in f.params[1:] if p in ("chunk", "signal", "buff")]
        dt = DT(prog, f, array_params=arrs, attr_tags=tags)
        for call in calls:
            n += 1
            t = dt.of(call.args[0])
            if f.name == "__init__":
                # filters come from the bank's get_impulse_response: documented float64 / complex128
                src = astq.text(call.args[0])
                ok = "filt" in src
                ctx.check(ok, R, f, call, "filters handed to _compute_dft are the bank's float64 / complex128 impulse responses",
                          "_compute_dft is given %s in __init__" % src)
                continue
            ok = t and t <= {"f64", "c128"}
            ctx.check(ok, R, f, call, "the buffer handed to _compute_dft is float64 / complex128 on every path",
                      "the buffer handed to _compute_dft may have dtype %s (the caller's); under NumPy >= 2 rfft/fft of float32 yields "
                      "complex64 and the complex128 assertion fails once a chunk spans a DFT block" % sorted(t))
    ctx.floor(R, n, 2)
    # the helpers assert complex128 (the obligation this rule discharges)
    for name in ("_compute_dft", "_compute_idft"):
        f = prog.own_method(c, name)
        asserts = [a for a in f.body_nodes() if isinstance(a, ast.Assert) and "complex128" in astq.text(a.test)]
        ctx.check(len(asserts) >= 1, R, f, f.node, "%s states its complex128 assumption" % name)


def dtype_out(ctx, R="R-C03-dtype-out"):
    prog = ctx.prog
    c = _si(prog)
    pre = prog.own_method(c, "_compute_preamble")
    # not-started branch: floating check raises first, then _ret_dtype = chunk.dtype
    els = [n for n in pre.body_nodes() if isinstance(n, ast.If) and astq.text(n.test) == "self._started"]
    ctx.need(len(els) == 1, R, "`if self._started` not found in _compute_preamble")
    body = els[0].orelse
    ok = isinstance(body[0], ast.If) and "np.issubdtype(chunk.dtype, np.floating)" in astq.text(body[0].test) and astq.text(body[0].test).startswith("not ") and \
        isinstance(body[0].body[0], ast.Raise) and astq.raise_type(prog, pre, body[0].body[0]) == "ValueError"
    ctx.check(ok, R, pre, body[0], "non-floating input raises ValueError before any state is touched", "first statement of a new utterance is %s" % astq.text(body[0])[:80])
    ok = len(body) > 1 and astq.eq_text(body[1], "self._ret_dtype=chunk.dtype")
    ctx.check(ok, R, pre, body[1] if len(body) > 1 else els[0], "the result dtype is that of the utterance's first chunk")
    st = els[0].body
    ok = len(st) == 1 and isinstance(st[0], ast.If) and astq.eq_text(st[0].test, "chunk.dtype!=self._ret_dtype") and isinstance(st[0].body[0], ast.Raise)
    ctx.check(ok, R, pre, st[0] if st else MISSING(els[0]), "a later chunk of another dtype is refused")
    tags = _attr_tags(prog, c)
    tags["_ret_dtype"] = {"RET"}
    for name in ("compute_chunk", "finalize"):
        f = prog.own_method(c, name)
        allocs = [n for n in f.body_nodes() if isinstance(n, ast.Assign) and astq.is_name(n.targets[0], "coeffs")]
        ctx.need(allocs, R, "coeffs allocation not found in %s" % name)
        for a in allocs:
            src = astq.text(a.value).replace(" ", "")
            ok = "dtype=self._ret_dtype" in src
            ctx.check(ok, R, f, a, "%s allocates / derives its result with the utterance's dtype" % name, "%s builds its result as %s" % (name, astq.text(a.value)[:80]))
        dtf = DT(prog, f, attr_tags=tags)
        for r in astq.returns_of(f):
            okr = astq.is_name(r.value, "coeffs") or (r.value is not None and dtf.of(r.value) == {"RET"})
            ctx.check(okr, R, f, r, "%s returns that array (or another array of the utterance's dtype)" % name, "%s returns %s" % (name, astq.text(r.value)))
        ctx.check("self.num_coeffs" in " ".join(astq.text(a.value) for a in allocs), R, f, allocs[0], "%s results have num_coeffs columns" % name, structural=True)


def chunk_dtype_fixed_point(ctx, R="R-C03-dtype-out"):
    """The dtype remembered at the first chunk is the chunk's own dtype, and later chunks are compared with it: a second chunk
    of the same signal must pass the test.  Forward substitution of _compute_preamble in the two states (fresh / started)."""
    prog = ctx.prog
    c = _si(prog)
    pre = prog.own_method(c, "_compute_preamble")
    ch = pre.params[1]
    d = S.sym(ch + ".dtype")
    ev0 = SymEval(prog, pre, seed={"self._started": False}).run()
    stored = ev0.env.get("self._ret_dtype")
    if stored is None:
        ctx.error(R, "cannot decide which dtype is remembered for the utterance: _compute_preamble no longer assigns self._ret_dtype")
        return
    what = "the dtype remembered at the first chunk is that chunk's dtype (what later chunks are compared with, and what the result is returned in)"
    if stored == d:
        ctx.ok(R, pre.loc(), what)
    else:
        widening = any(isinstance(x, S.E) and x.op == "call" and x.args[0] in ("np.result_type", "np.promote_types", "np.find_common_type", "np.dtype")
                       for x in S.walk(stored)) or stored.is_const or any(isinstance(x, S.E) and x.op == "sym" and x.args[0].startswith(("numpy.float", "np.float")) for x in S.walk(stored))
        if widening and not S.has_unknown(stored):
            ctx.bad(R, pre, pre.node, "the utterance's dtype is remembered as %s, not as the first chunk's own dtype: for a signal of another precision (float16, or an "
                    "integer type) the result is not returned in the signal's dtype, and a second chunk of the same signal fails the comparison with the "
                    "remembered dtype although nothing changed" % S.show(stored)[:80], what, robust=True)
        else:
            ctx.error(R, "cannot decide which dtype is remembered for the utterance: %s" % S.show(stored)[:100])


def _dtype_class(e, sig):
    """'in' (the signal's own dtype) | 'f64' | '?' for an array expression built from the signal"""
    if not isinstance(e, S.E):
        return "?"
    if e.op == "sym":
        return "in" if e.args[0] == sig else "?"
    if e.op == "cond":
        ks = {_dtype_class(a, sig) for a in e.args[1:]}
        return "f64" if "f64" in ks else ("?" if "?" in ks else "in")
    if e.op != "call":
        return "?"
    nm = e.args[0]
    kws = {a.args[0][3:]: a.args[1] for a in e.args[1:] if isinstance(a, S.E) and a.op == "call" and str(a.args[0]).startswith("kw:")}
    if nm in ("np.zeros", "np.ones", "np.empty", "np.full"):
        d = kws.get("dtype")
        if d is None:
            pos = [a for a in e.args[1:] if not (isinstance(a, S.E) and a.op == "call" and str(a.args[0]).startswith("kw:"))]
            d = pos[1] if len(pos) > 1 and nm != "np.full" else None
        if d is None:
            return "f64"
        return "in" if S.show(d) in (sig + ".dtype",) else ("f64" if S.show(d) in ("numpy.float64", "np.float64", "float") else "?")
    if nm in ("np.zeros_like", "np.pad", "np.ascontiguousarray", "np.asarray", "np.array", "getitem", ".copy", "np.flip", ".reshape", "np.atleast_1d") and "dtype" not in kws:
        return _dtype_class(e.args[1], sig)
    if nm in ("np.ascontiguousarray", "np.asarray", "np.array", "np.asfarray", "np.require") and "dtype" in kws:
        d = S.show(kws["dtype"])
        return "in" if d == sig + ".dtype" else ("f64" if d in ("numpy.float64", "np.float64", "float", "'float64'", "'f8'") else "?")
    if nm in ("np.concatenate", "np.hstack", "np.append"):
        items = e.args[1].args[1:] if (isinstance(e.args[1], S.E) and e.args[1].op == "call" and e.args[1].args[0] in ("list", "tuple")) else e.args[1:]
        ks = {_dtype_class(i, sig) for i in items if isinstance(i, S.E) and not (i.op == "call" and str(i.args[0]).startswith("kw:"))}
        if "?" in ks:
            return "?"
        return "f64" if "f64" in ks else "in"
    if nm == ".astype" and len(e.args) >= 3:
        return "in" if S.show(e.args[2]) == sig + ".dtype" else ("f64" if S.show(e.args[2]) in ("numpy.float64", "np.float64") else "?")
    return "?"


def full_keeps_dtype(ctx, R="R-C03-dtype-out"):
    """compute_full feeds compute_chunk an array of the signal's own dtype (the result dtype is fixed by the first chunk)"""
    prog = ctx.prog
    c = _si(prog)
    g = prog.find_method(c, "compute_full")
    ctx.need(g is not None, R, "compute_full not found")
    if g.cls is not c:
        ctx.ok(R, g.loc(), "compute_full is inherited: frame_by_frame_calculation feeds slices of the signal itself")
        return
    ev = SymEval(prog, g, seed={"self._started": False}).run()
    sig = g.params[1]
    seen = 0
    for _, v, rn in ev.returns:
        for x in S.walk(v):
            if isinstance(x, S.E) and x.op == "call" and x.args[0] == ".compute_chunk" and len(x.args) >= 3:
                seen += 1
                k = _dtype_class(x.args[2], sig)
                if k == "in":
                    ctx.ok(R, g.loc(rn), "compute_full feeds compute_chunk an array of the signal's own dtype")
                elif k == "f64":
                    ctx.bad(R, g, rn, "compute_full hands compute_chunk %s: a float32 / float16 signal is promoted to float64 before the first chunk fixes the "
                            "result dtype, so the result is float64" % S.show(x.args[2])[:120], "compute_full feeds compute_chunk an array of the signal's own dtype", robust=True)
                else:
                    ctx.error(R, "cannot decide the dtype of what compute_full hands to compute_chunk: %s" % S.show(x.args[2])[:140])
    if not seen:
        ctx.error(R, "cannot decide: SI compute_full does not go through compute_chunk (%s)" % (S.show(ev.returns[0][1])[:120] if ev.returns else "no return"))


def fft_pairing(ctx, R="R-C03-fft-pairing"):
    prog = ctx.prog
    c = _si(prog)
    fwd = prog.own_method(c, "_compute_dft")
    inv = prog.own_method(c, "_compute_idft")

    kind = {"numpy.fft.rfft": "rfft", "numpy.fft.fft": "fft", "numpy.fft.irfft": "irfft", "numpy.fft.ifft": "ifft",
            "scipy.fftpack.rfft": "rfft", "scipy.fftpack.fft": "fft", "scipy.fftpack.irfft": "irfft", "scipy.fftpack.ifft": "ifft"}

    def branches(f):
        out = {}
        for pack in (True, False):
            for real in (True, False):
                ev = SymEval(prog, f, seed={"pydrobert.speech.config.USE_FFTPACK": pack, "self._real": real}, rename=sc.NP_RENAME, inline_props=False).run()
                hits = []
                for st in f.body_nodes():
                    if isinstance(st, ast.stmt) and ev.reached(st) and not isinstance(st, (ast.If, ast.For, ast.While, ast.Try, ast.With)):
                        for x in ast.walk(st):
                            if isinstance(x, ast.Call):
                                q = prog.qualify(f.module, x.func, f)
                                if q in kind:
                                    hits.append((kind[q], x, ev.eval_at(st, astq.kw(x, "n")) if astq.kw(x, "n") is not None else None, q))
                out[(pack, real)] = hits
        return out

    bf, bi = branches(fwd), branches(inv)

    pair = {"rfft": "irfft", "fft": "ifft"}
    for key in bf:
        hf, hi = bf[key], bi[key]
        ctx.need(len(hf) == 1 and len(hi) == 1, R, "expected one transform call for (fftpack=%s, real=%s), found %d forward / %d inverse" % (key[0], key[1], len(hf), len(hi)))
        kf, ki = hf[0][0], hi[0][0]
        ctx.check(pair.get(kf) == ki, R, inv, hi[0][1], "(fftpack=%s, real=%s): forward %s is inverted by %s" % (key[0], key[1], kf, pair.get(kf)),
                  "(fftpack=%s, real=%s): the forward transform is %s but the inverse is %s" % (key[0], key[1], kf, ki))
        ctx.check((kf == "rfft") == key[1], R, fwd, hf[0][1], "(fftpack=%s, real=%s): real banks use the half-spectrum transform" % key)
        ctx.check(hf[0][3].split(".")[0] == hi[0][3].split(".")[0], R, inv, hi[0][1], "(fftpack=%s, real=%s): both directions use the same FFT library" % key)
        if not key[0]:
            ctx.check(hf[0][2] == sc.D, R, fwd, hf[0][1], "numpy forward transform is taken at n = dft_size",
                      "forward transform length is %s" % (S.show(hf[0][2]) if hf[0][2] is not None else "implicit"))
            if key[1]:
                ctx.check(hi[0][2] == sc.D, R, inv, hi[0][1], "the real inverse transform is given n = dft_size explicitly",
                          "np.fft.irfft is called without n=dft_size: for an odd DFT size it returns dft_size - 1 samples of a different "
                          "signal (the length of a half spectrum does not determine the parity), so every coefficient is off")
    ctx.floor(R, len(bf), 4)


def prep(ctx, R="R-C03-prep"):
    prog = ctx.prog
    c = _si(prog)
    init = prog.own_method(c, "__init__")
    loops = [n for n in init.body_nodes() if isinstance(n, ast.For) and astq.text(n.iter) == "range(bank.num_filts)"]
    ctx.need(len(loops) == 1, R, "filter preparation loop not found")
    lp = loops[0]
    _roll_value(ctx, R, init, lp)
    apps = [x for x in astq.calls_in(lp) if astq.attr_call(x, "append") and astq.text(x.func.value) == "self._filts"]
    ok = len(apps) == 1 and astq.eq_text(apps[0].args[0], "self._compute_dft(filt[:self._max_support])")
    ctx.check(ok, R, init, apps[0] if apps else MISSING(lp), "every filter is clamped to max_support and transformed by _compute_dft, in bank order",
              "filter storage is %s" % (astq.text(apps[0]) if apps else None))
    gets = [x for x in astq.calls_in(lp) if astq.attr_call(x, "get_impulse_response")]
    ok = len(gets) == 1 and [astq.text(a) for a in gets[0].args] == ["filt_idx", "self._dft_size"]
    ctx.check(ok, R, init, gets[0] if gets else MISSING(lp), "impulse responses are requested at the DFT size")
    for style, want in (("centered", "np.roll(filt,self._translation-mid_samp+1)"), ("causal", "np.roll(filt,self._translation)")):
        rolls = [n for n in ast.walk(lp) if isinstance(n, ast.Assign) and isinstance(n.value, ast.Call) and prog.qualify(init.module, n.value.func, init) == "numpy.roll"]
        pm = astq.parents(init)
        hit = None
        for r in rolls:
            g = [a for a in astq.ancestors(pm, r) if isinstance(a, ast.If) and "frame_style" in astq.text(a.test)]
            if not g:
                continue
            in_body = any(x is r for s_ in g[0].body for x in ast.walk(s_))
            is_centered = ("centered" in astq.text(g[0].test)) == in_body
            if is_centered == (style == "centered"):
                hit = r
        ctx.check(hit is not None and astq.text(hit.value).replace(" ", "") == want, R, init, hit if hit is not None else lp,
                  "%s style: filters are rolled by %s" % (style, want[len("np.roll(filt,"):-1]), "%s roll is %s" % (style, astq.text(hit.value) if hit is not None else None), structural=True)
    mids = [n for n in ast.walk(lp) if isinstance(n, ast.Assign) and astq.is_name(n.targets[0], "mid_samp")]
    ctx.check(len(mids) == 1 and astq.eq_text(mids[0].value, "(left_samp+right_samp)//2"), R, init, mids[0] if mids else MISSING(lp),
              "the centre of a filter's support is (left + right) // 2", structural=True)
    # energy impulse
    en = [n for n in init.body_nodes() if isinstance(n, ast.If) and astq.text(n.test) == "include_energy"]
    ctx.need(len(en) == 1, R, "energy branch not found in SI __init__")
    txt = astq.text(en[0]).replace(" ", "")
    ok = "dirac_filter=np.zeros(self._dft_size,dtype=np.float64)" in txt and "dirac_filter[self._translation]=1" in txt and "self._filts.append(dirac_filter)" in txt
    ctx.check(ok, R, init, en[0], "the energy coefficient uses a unit impulse at the translation index, stored first (index 0)")
    n_en, n_lp = init.node.body.index(en[0]) if en[0] in init.node.body else -1, init.node.body.index(lp) if lp in init.node.body else -1
    ctx.check(0 <= n_en < n_lp, R, init, en[0], "the energy filter precedes the bank's filters")
    ok = "ifself._real:" in txt and "np.fft.rfft(dirac_filter)" in txt and "np.fft.fft(dirac_filter)" in txt
    ctx.check(ok, R, init, en[0], "the impulse is transformed with the same real/complex choice as the filters")
    w = [n for n in init.body_nodes() if isinstance(n, ast.Assign) and astq.is_name(n.targets[0], "window")]
    ok = len(w) == 1 and astq.eq_text(w[0].value, "window_function.get_impulse_response(2*self._frame_shift)")
    ctx.check(ok, R, init, w[0] if w else MISSING(init.node), "the integration window has 2 x frame_shift samples")
    ws = [n for n in init.body_nodes() if isinstance(n, ast.Assign) and astq.is_self_attr(n.targets[0], "self", "_window")]
    ok = len(ws) == 1 and astq.eq_text(ws[0].value, "window.reshape(2,self._frame_shift)")
    ctx.check(ok, R, init, ws[0] if ws else MISSING(init.node), "the window is split into two halves of frame_shift samples")
    ev = SymEval(prog, init, seed={"frame_style": "centered"}, rename={}).run()
    tr = ev.env.get("self._translation")
    ms = ev.env.get("self._max_support")
    ctx.check(tr is not None and ms is not None and S.compare(tr, S.floordiv(ms, S.lift(2)), domain={})["verdict"] == "equal", R, init, init.node,
              "centered style: filters are re-centred at max_support // 2")
    fl = ev.env.get("self._frame_length")
    ctx.check(fl is not None and S.compare(fl, S.sub(S.add(ms, ev.env.get("self._frame_shift")), S.ONE), domain={})["verdict"] == "equal", R, init, init.node,
              "frame_length = max_support + frame_shift - 1")


def _roll_value(ctx, R, init, lp):
    """centered style, as a value: every filter is rolled by translation - (left + right) // 2 + 1 with (left, right) its
    own reported support - whatever kind of bank it comes from (zero-phase banks report asymmetric supports too: the
    triangular filters have (-K // 2 - 1, K // 2 + 1))"""
    from .. import scenario as SC
    prog = ctx.prog
    what = "centered style: each filter is rolled by translation - (left + right) // 2 + 1 of its own support, for every kind of bank"
    try:
        ev = SymEval(prog, init, seed={"frame_style": "centered"}, rename={}, loop_first=True).run()
    except Exception as e:
        ctx.error(R, "cannot decide %s: %r" % (what, e))
        return
    rolls = [n for n in ast.walk(lp) if isinstance(n, ast.Assign) and isinstance(n.value, ast.Call) and prog.qualify(init.module, n.value.func, init) == "numpy.roll"
             and len(n.value.args) == 2]
    seen = 0
    for r in rolls:
        try:
            env, _ = ev.at(r)
            got = ev.eval_at(r, r.value.args[1])
        except Exception:
            continue  # the other style's roll
        seen += 1
        bank = env.get("bank")
        tr = env.get("self._translation")
        if bank is None or tr is None or not isinstance(lp.target, ast.Name):
            ctx.error(R, "cannot decide %s: bank / translation not bound at the roll" % what)
            return
        sup = S.call("getitem", S.call(".supports", bank), S.sym(lp.target.id))
        want = S.add(S.sub(tr, S.floordiv(S.add(S.call("getitem", sup, S.ZERO), S.call("getitem", sup, S.ONE)), S.lift(2))), S.ONE)
        free = (S.call(".is_zero_phase", bank), S.call(".is_real", bank), S.call(".is_analytic", bank))
        try:
            alts = list(cc.strip_cond(got))
        except Exception:
            alts = None
        if alts is None or any(t not in free for tests, _ in alts for _, t in tests):
            ctx.error(R, "cannot decide %s: the shift depends on %s" % (what, S.show(got)[:160]))
            return
        for tests, leaf in alts:
            v, info = SC.same_value(leaf, want)
            if v == "equal":
                continue
            sc = ", ".join("%s is %s" % (S.show(t).split("(")[0].lstrip("."), l == "T") for l, t in tests) or "every bank"
            calls_, _ = SC.vocabulary(leaf)
            known = {"getitem", ".supports", "max", "min", "comp", "tuple", "list", "int"} | {c_ for c_ in SC.vocabulary(want)[0]}
            outside = {c_ for c_ in calls_ if not str(c_).startswith("kw:")} - known
            if v == "differ" and not S.has_unknown(leaf) and not outside:
                ctx.bad(R, init, r, "[%s] the filter is rolled by %s ; documented: %s" % (sc, S.show(leaf)[:200], S.show(want)[:200]), what, robust=True)
            else:
                ctx.error(R, "cannot decide [%s] %s: %s" % (sc, what, S.show(leaf)[:160]))
            return
        ctx.ok(R, init.loc(r), what, "shift value compared in %d alternative(s)" % len(alts))
    if not seen:
        ctx.error(R, "cannot decide %s: no np.roll reached in the centered style" % what)


def power(ctx, R="R-C03-power"):
    """What is integrated is |y|^p of the filtered signal y: y * conj(y) for use_power, |y| otherwise.  For a complex bank
    (Gabor, gammatone) y is complex, so y**2 integrates Re(y^2), not the power."""
    prog = ctx.prog
    f = prog.own_method(_si(prog), "_fill_y_buf")
    for pw in (True, False):
        ev = SymEval(prog, f, seed={"self._power": pw}, inline_props=False).run()
        acc = [n for n in f.body_nodes() if isinstance(n, ast.AugAssign) and isinstance(n.target, ast.Subscript) and astq.is_self_attr(n.target.value, f.params[0])]
        ctx.need(len(acc) == 1, R, "accumulation into the block accumulators not found in _fill_y_buf")
        v = ev.eval_at(acc[0], acc[0].value)
        ys = [x for x in S.walk(v) if x.op == "call" and x.args[0] == "._compute_idft"]
        ctx.need(ys, R, "the accumulated value does not come from the inverse transform: %s" % S.show(v)[:120])
        # Y: the retained part of the inverse transform
        Y = None
        for x in S.walk(v):
            if cc.is_call(x, "getitem") and x.args[1] in ys:
                Y = x
        ctx.need(Y is not None, R, "retained slice of the inverse transform not found")
        ysym = S.sym("Y")
        v2 = S.subst(v, {Y: ysym})
        core = [x for x in S.walk(v2) if "Y" in S.symbols(x) and not (cc.is_call(x, "getitem") or (x.op == "call" and x.args[0] in (".real", "np.sum", "kw:axis")) or x.op in ("mul",) and False)]
        # innermost expression of Y that is sliced: strip getitem / .real wrappers from the integrand
        integrand = None
        for x in S.walk(v2):
            if cc.is_call(x, "getitem") and "Y" in S.symbols(x.args[1]):
                integrand = x.args[1]
        ctx.need(integrand is not None, R, "integrand not found in %s" % S.show(v2)[:120])
        conj = S.call(".conj", ysym)
        absy = [S.call("abs", ysym), S.call("np.abs", ysym), S.call("np.absolute", ysym)]
        mod2 = [S.mul(ysym, conj), S.mul(conj, ysym)] + [S.power(a, S.lift(2)) for a in absy] + \
            [S.add(S.power(S.call(".real", ysym), S.lift(2)), S.power(S.call(".imag", ysym), S.lift(2)))]
        sq = [S.power(ysym, S.lift(2)), S.mul(ysym, ysym)]
        if pw:
            if integrand in sq:
                ctx.bad(R, f, acc[0], "with use_power the integrand is y**2: for complex banks (Gabor, gammatone) the inverse transform y is complex and "
                        "Re(y^2) = Re(y)^2 - Im(y)^2 is integrated instead of the power |y|^2", "the power is y * conj(y)")
            elif integrand in mod2:
                ctx.ok(R, f.loc(acc[0]), "use_power: the integrand is |y|^2 (%s)" % S.show(integrand))
            else:
                raise AnalysisError("%s: unrecognised power integrand %s" % (R, S.show(integrand)[:100]))
        else:
            if integrand in absy:
                ctx.ok(R, f.loc(acc[0]), "magnitude: the integrand is |y|")
            elif integrand == ysym or integrand in sq or integrand in mod2:
                ctx.bad(R, f, acc[0], "without use_power the integrand is %s, not the magnitude |y|" % S.show(integrand), "the magnitude is |y|")
            else:
                raise AnalysisError("%s: unrecognised magnitude integrand %s" % (R, S.show(integrand)[:100]))
        ctx.check(cc.is_call(v2, "np.sum") and any(x.op == "mul" for x in S.walk(v2)), R, f, acc[0],
                  "the integrand is weighted by the window and summed over the block", "accumulated value is %s" % S.show(v2)[:100])


def logfloor(ctx, R="R-C03-logfloor"):
    prog = ctx.prog
    f = prog.own_method(_si(prog), "_compute_frame")
    for log in (True, False):
        ev = cc.body_eval(prog, f, f.node.body, seed={"self._log": log})
        # coeffs[:] = ...
        st = [n for n in f.body_nodes() if isinstance(n, ast.Assign) and astq.eq_text(n.targets[0], "coeffs[:]")]
        ctx.need(st, R, "coefficient stores not found in SI _compute_frame")
        first = astq.text(st[0].value).replace(" ", "")
        ctx.check(first == "self._y_buf[0,0,:]+self._y_buf[1,1,:]", R, f, st[0], "a frame is first-half window x first block + second-half window x second block",
                  "frame accumulation is %s" % astq.text(st[0].value))
    # the frame handed back, by value, in every setting of the options the routine may consult
    ybuf = S.sym("self._y_buf")
    full = S.call("slice", S.NONE, S.NONE, S.NONE)
    acc_want = S.add(S.call("getitem", ybuf, S.call("tuple", S.ZERO, S.ZERO, full)), S.call("getitem", ybuf, S.call("tuple", S.ONE, S.ONE, full)))
    n_val = 0
    for log in (True, False):
        for power in (True, False):
            for energy in (True, False):
                try:
                    ev = cc.body_eval(prog, f, f.node.body, seed={"self._log": log, "self._power": power, "self._include_energy": energy})
                    v = ev.env.get("coeffs")
                except Exception:
                    v = None
                if v is None or S.has_unknown(v):
                    continue
                # the accumulator attribute may carry another name
                bases = {x.args[1] for x in S.walk(v) if isinstance(x, S.E) and x.op == "call" and x.args[0] == "getitem" and isinstance(x.args[1], S.E)
                         and x.args[1].op == "sym" and str(x.args[1].args[0]).startswith("self.")}
                if len(bases) == 1 and ybuf not in bases:
                    v = S.subst(v, {list(bases)[0]: ybuf})
                want = S.call("log", S.emax(acc_want, S.sym("pydrobert.speech.config.LOG_FLOOR_VALUE"))) if log else acc_want
                if v == acc_want and log:
                    continue  # reported by the clauses below (missing log)
                same = v == want or S.compare(v, want, domain={})["verdict"] == "equal"
                n_val += 1
                if not same and not (S.show(v) == S.show(want)):
                    ctx.bad(R, f, f.node, "[use_log=%s, use_power=%s, include_energy=%s] the frame handed back is %s ; documented: every coefficient (the energy "
                            "included, which went through the same |.|^p and window as the others) is the sum of the two half-window accumulators%s"
                            % (log, power, energy, S.show(v)[:160], ", floored and logged" if log else ""),
                            "a frame is the sum of its two half-window accumulators, in every option setting", robust=True)
    ctx.ok(R, f.loc(), "a frame is the sum of its two half-window accumulators, in every option setting", "%d option settings evaluated" % n_val)
    logs = [n for n in st if "np.log" in astq.text(n.value)]
    ok = len(logs) == 1 and astq.eq_text(logs[0].value, "np.log(np.maximum(coeffs,config.LOG_FLOOR_VALUE))")
    pm = astq.parents(f)
    g = [astq.text(a.test) for a in astq.ancestors(pm, logs[0]) if isinstance(a, ast.If)] if logs else []
    ctx.check(ok and g == ["self._log"], R, f, logs[0] if logs else MISSING(f.node), "the log is floored at LOG_FLOOR_VALUE and taken only under use_log",
              "log step is %s under %s" % (astq.text(logs[0].value) if logs else None, g))
    sh = [astq.text(n).replace(" ", "") for n in f.node.body if isinstance(n, (ast.Assign, ast.AugAssign))]
    sh = [t_[:-len(".copy()")] if t_.endswith(".copy()") and "=" in t_ else t_ for t_ in sh]  # an explicit copy of an overlapping source: the same values
    ok = "self._y_buf[:-1]=self._y_buf[1:]" in sh and "self._y_buf[-1]=0" in sh and "self._y_rem-=self._frame_shift" in sh
    ctx.check(ok, R, f, f.node, "emitting a frame shifts the block accumulators by one and consumes frame_shift samples")


def _default_window(ctx, R="R-C03-default-window"):
    from .c02 import default_window
    default_window(ctx, R, cls="compute.ShortIntegrationFrameComputer", attr="self._window")


def _fresh_buffers(ctx, R="R-C03-fresh-buffers"):
    """every coefficient is computed from the current signal only: the sample and accumulator buffers (and the counters
    that index them) are re-initialised on every path between two utterances (rule shared with C04)"""
    from .c04 import reset
    reset(ctx, _si(ctx.prog), R)


def energy_impulse(ctx, R="R-C03-energy-impulse"):
    """The energy coefficient is produced by a unit impulse that sits exactly at the translation index (so that it returns the
    signal delayed like every filter does).  The first entry of the filter list built under include_energy is followed back
    through transform / clamp / roll to the array it was made from: np.zeros with a single store of 1 at index p; p plus
    the accumulated roll must equal the translation."""
    prog = ctx.prog
    init = prog.own_method(_si(prog), "__init__")
    n = 0
    for style in ("centered", "causal"):
        ev = SymEval(prog, init, seed={"include_energy": True, "frame_style": style}, rename={}).run()
        v = ev.env.get("self._filts")
        ctx.need(v is not None and cc.is_call(v, "list") and len(v.args) >= 2, R, "[%s] the filter list has no closed form under include_energy" % style)
        e00 = v.args[1]
        ctx.need(not (e00.op == "call" and e00.args[0] == "repeat"), R, "[%s] the first filter is not the energy filter" % style)
        for e0 in ([e00.args[1], e00.args[2]] if e00.op == "cond" else [e00]):  # real / complex transform alternatives
            shift = S.ZERO
            cur = e0
            steps = []
            while True:
                if cur.op == "call" and cur.args[0] in ("np.fft.rfft", "np.fft.fft", "scipy.fftpack.rfft", "scipy.fftpack.fft") and len(cur.args) >= 2:
                    steps.append("transform")
                    cur = cur.args[1]
                elif cc.is_call(cur, "._compute_dft") and len(cur.args) == 3:
                    steps.append("transform")
                    cur = cur.args[2]
                elif cc.is_call(cur, "getitem") and cc.is_call(cur.args[2], "slice") and cur.args[2].args[1] in (S.NONE, S.ZERO) and cur.args[2].args[3] == S.NONE:
                    steps.append("clamp")
                    cur = cur.args[1]
                elif cc.is_call(cur, "np.roll") and len(cur.args) == 3:
                    shift = S.add(shift, cur.args[2])
                    steps.append("roll")
                    cur = cur.args[1]
                else:
                    break
            ctx.need("transform" in steps, R, "[%s] the energy filter is not stored in the frequency domain: %s" % (style, S.show(e0)[:80]))
            ok_src = cur.op == "call" and cur.args[0] == "stored" and len(cur.args) == 4 and cc.is_call(cur.args[1], "np.zeros") and cur.args[3] == S.ONE
            ctx.need(ok_src, R, "[%s] the energy filter is not made from np.zeros with a single store of 1: %s" % (style, S.show(cur)[:100]))
            pos = S.add(cur.args[2], shift)
            tr = ev.env.get("self._translation")
            ctx.need(tr is not None, R, "self._translation not assigned before the filters are built")
            um = {}
            for x in list(S.walk(pos)) + list(S.walk(tr)):
                if x.op == "unknown":
                    um[x] = S.sym("U_" + "".join(ch if ch.isalnum() else "_" for ch in str(x.args[0])))
            pos_n, tr_n = (S.subst(pos, um), S.subst(tr, um)) if um else (pos, tr)
            r = S.compare(pos_n, tr_n, domain={})
            n += 1
            if r["verdict"] == "equal":
                ctx.ok(R, init.loc(), "[%s] the energy impulse ends up at the translation index" % style)
            else:
                diff = S.canon(S.sub(pos_n, tr_n))
                ctx.bad(R, init, init.node, "[%s] the unit impulse behind the energy coefficient ends up at index translation + (%s), not at the translation index: "
                        "coefficient 0 then integrates |x[t - (%s)]|^p, a shifted copy of the signal, instead of the energy of the frame the other "
                        "coefficients describe" % (style, diff, diff), "the energy impulse sits at the translation index")
    ctx.floor(R, n, 2)



def no_module_state(ctx, R="R-C03-fresh-buffers"):
    """The short-integration computer keeps its state on the instance: nothing it computes (filters in the frequency domain,
    buffers) is stored in or fetched from class- or module-level objects, where another computer - another frame style, another
    configuration - would find it."""
    from .c20 import no_shared_state
    prog = ctx.prog
    c = _si(prog)
    n = 0
    for fi in prog.functions.values():
        if fi.cls is c and fi.parent is None:
            n += 1
            no_shared_state(ctx, R, fi, "ShortIntegrationFrameComputer.%s" % fi.name, allow_self=True)
    ctx.need(n >= 5, R, "methods of ShortIntegrationFrameComputer not found")


def log_floor_live(ctx, R="R-C03-logfloor"):
    """config.LOG_FLOOR_VALUE is documented as tunable: the floor is read through the config module when a frame is computed,
    not captured in a default argument, a module-level constant, a from-import or (C02: the constructor)"""
    from .c07 import config_live
    config_live(ctx, R, floor=3, module="compute", attr="LOG_FLOOR_VALUE")


def any_layout(ctx, R="R-C03-dtype-in"):
    """every signal is a valid input whatever its memory layout (strided views, Fortran order): nothing is refused on .flags / .strides"""
    from . import partial
    prog = ctx.prog
    c = prog.cls("compute.ShortIntegrationFrameComputer")
    roots = [m for m in (prog.find_method(c, n) for n in ("compute_full",)) if m is not None]
    partial.layout_independent(ctx, R, roots)
