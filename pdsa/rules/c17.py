"""C17 - saved normalisation statistics reload to the same transform."""

import ast

from .. import astq
from .. import sym as S
from ..cfg import CFG
from ..dataflow import ReachingDefs, containing_node
from ..report import MISSING
from ..model import AnalysisError
from ..symeval import SymEval
from . import cli_common as cc

LEVEL = "other"
TECHNIQUE = ("typestate rule for the read-only NpzFile, region-domain rule that the loader's validity predicate only "
             "constrains invariants of the accumulators, guard / suffix-dispatch / key-search structural rules")
EXPLANATION = (
    "Decides on Standardize.save / __init__ / _sanitize_stats: a value that may be the NpzFile returned by np.load is never "
    "the target of item assignment / update / pop and is expanded only through dict(.) (so saving twice to one .npz "
    "works); the raw-binary loader's validity predicate constrains only what the accumulators guarantee in floating point "
    "- an integral, non-negative count and non-negative sums of squares - so statistics with negative sums (log-energies) "
    "or round-off-negative variances reload; save raises ValueError without statistics before touching any file; the "
    "suffix dispatch (.npy / .npz / raw) writes the whole float64 matrix and has a reader reachable from "
    "Standardize(rfilename=...); the .npz branch consults `overwrite` to decide whether the archive is loaded first and "
    "stores the entry under the given key or else under the first unused arr_<k> found by a membership search starting "
    "at 0 (what the un-keyed reader, which reads arr_0, needs). Does NOT decide equality of the reloaded transform "
    "(values), nor the float32/float64 re-interpretation heuristic.")


def run(ctx):
    ctx.rule(npz_typestate)
    ctx.rule(reader_accepts_writer)
    ctx.rule(save_structure)
    ctx.rule(default_key)
    ctx.rule(loader)
    ctx.rule(nothing_pending)
    ctx.rule(no_process_state)
    ctx.rule(loaded_stats_are_live)


def _std(prog):
    return prog.cls("post.Standardize")


def npz_typestate(ctx, R="R-C17-npz-typestate"):
    prog = ctx.prog
    f = prog.own_method(_std(prog), "save")
    cfg = CFG(f.node)
    rd = ReachingDefs(f, cfg)
    n = 0

    def is_npload(v):
        return isinstance(v, ast.Call) and prog.qualify(f.module, v.func, f) == "numpy.load"

    muts = []
    for node in f.body_nodes():
        if isinstance(node, ast.Assign):
            for t in node.targets:
                if isinstance(t, ast.Subscript) and isinstance(t.value, ast.Name):
                    muts.append((t.value.id, node, "item assignment"))
        elif isinstance(node, ast.Delete):
            for t in node.targets:
                if isinstance(t, ast.Subscript) and isinstance(t.value, ast.Name):
                    muts.append((t.value.id, node, "item deletion"))
        elif isinstance(node, ast.Call) and isinstance(node.func, ast.Attribute) and node.func.attr in ("update", "pop", "setdefault", "popitem", "clear") \
                and isinstance(node.func.value, ast.Name):
            muts.append((node.func.value.id, node, "." + node.func.attr + "()"))
    for name, node, how in muts:
        cn = containing_node(cfg, f, node) if not isinstance(node, ast.stmt) else cfg.node(node)
        defs = rd.reaching(cn, name)
        n += 1
        bad = [d for d in defs if (d.kind == "assign" and is_npload(d.value)) or (d.kind == "with" and is_npload(d.value))]
        ctx.check(not bad, R, f, node if isinstance(node, ast.stmt) else astq.enclosing_stmt(astq.parents(f), node),
                  "%s on `%s` never acts on the read-only NpzFile returned by np.load" % (how, name),
                  "`%s` may be the read-only NpzFile returned by np.load when %s is applied to it; saving again to an existing .npz "
                  "raises TypeError" % (name, how))
    ctx.floor(R, n, 1)
    # the archive is expanded through dict(...)
    loads = [c for c in astq.func_calls(f) if is_npload(c)]
    ctx.need(len(loads) >= 1, R, "np.load of the existing archive not found in save")
    pm = astq.parents(f)
    for c in loads:
        par = pm.get(id(c))
        ok = False
        if isinstance(par, ast.Call) and astq.is_name(par.func, "dict"):
            ok = True
        if isinstance(par, ast.withitem):
            w = pm.get(id(par))
            nm = par.optional_vars.id if isinstance(par.optional_vars, ast.Name) else None
            ok = nm is not None and any(isinstance(x, ast.Call) and astq.is_name(x.func, "dict") and x.args and astq.is_name(x.args[0], nm) for s_ in w.body for x in ast.walk(s_))
        ctx.check(ok, R, f, astq.enclosing_stmt(pm, c), "the loaded archive is copied into a dict before it is extended",
                  "the result of np.load is used without being copied into a dict")


ALLOWED = [
    "np.isclose(np.round(self._stats[0, -1]), self._stats[0, -1])",
    "self._stats[0, -1] >= 0",
    "np.all(self._stats[1] >= 0)",
    "np.all(self._stats[1, :-1] >= 0)",
    "np.all(self._stats[1, :] >= 0)",
    "self._stats[0, -1] > 0",
]


def reader_accepts_writer(ctx, R="R-C17-reader-accepts-writer"):
    prog = ctx.prog
    f = prog.own_method(_std(prog), "_sanitize_stats")
    tries = [n for n in f.body_nodes() if isinstance(n, ast.Try)]
    ctx.need(len(tries) == 1, R, "_sanitize_stats no longer wraps its checks in one try block")
    ev = SymEval(prog, f, inline_props=False)
    ev.env = {}
    ev.block(tries[0].body)
    spec_ev = SymEval(prog, f, inline_props=False)
    spec_ev.env = {}
    allowed = [spec_ev.expr(ast.parse(t, mode="eval").body) for t in ALLOWED]
    n = 0

    def conjuncts(e):
        if e.op == "and":
            for a in e.args:
                yield from conjuncts(a)
        else:
            yield e

    for node in ast.walk(tries[0]):
        rhs = None
        if isinstance(node, ast.Assign) and astq.is_name(node.targets[0], "valid"):
            rhs = node.value
        elif isinstance(node, ast.AugAssign) and astq.is_name(node.target, "valid") and isinstance(node.op, ast.BitAnd):
            rhs = node.value
        if rhs is None or (isinstance(rhs, ast.Constant)):
            continue
        if not ev.reached(node):
            raise AnalysisError("%s: validity statement not reached by forward substitution" % R)
        e = ev.eval_at(node, rhs)
        for cj in conjuncts(e):
            n += 1
            ok = any(S.compare(cj, a, domain={})["verdict"] == "equal" for a in allowed)
            ctx.check(ok, R, f, node, "the loader's constraint `%s` holds for everything the accumulators can write" % S.show(cj)[:80],
                      "the raw-statistics loader requires `%s`, which accumulated statistics need not satisfy in floating point (only the count's "
                      "integrality / non-negativity and the non-negativity of the sums of squares are guaranteed; sums are negative for "
                      "negative-mean features and a variance computed from the sums can be slightly negative by round-off): valid "
                      "statistics would fail to reload" % S.show(cj)[:160])
    ctx.floor(R, n, 2)
    # the same for validity tests made by the constructor itself (helpers that the reference does not have are read through):
    # they see the statistics of every source - archives and tables as well - so they, too, may only demand what the writer guarantees
    init = prog.own_method(_std(prog), "__init__")
    try:
        evi = SymEval(prog, init, inline_props=False).run()
    except Exception:
        evi = None
    if evi is not None:
        SHAPE_OK = ("(self._stats.ndim == 2)", "(getitem(self._stats.shape, 0) == 2)", "(1 < getitem(self._stats.shape, 1))", "(2 <= getitem(self._stats.shape, 1))",
                    "(len(self._stats.shape) == 2)", "(getitem(self._stats.shape, 1) > 1)", "(getitem(self._stats.shape, 1) >= 2)","(.ndim(self._stats) == 2)", "(getitem(.shape(self._stats), 0) == 2)", "(getitem(.shape(self._stats), 1) > 1)", "(getitem(.shape(self._stats), 1) >= 2)",
                    "(len(.shape(self._stats)) == 2)")
        for node in init.body_nodes():
            rhs = None
            if isinstance(node, ast.Assign) and astq.is_name(node.targets[0], "valid"):
                rhs = node.value
            elif isinstance(node, ast.AugAssign) and astq.is_name(node.target, "valid") and isinstance(node.op, ast.BitAnd):
                rhs = node.value
            if rhs is None or isinstance(rhs, ast.Constant) or not evi.reached(node):
                continue
            try:
                e = evi.eval_at(node, rhs)
            except Exception:
                continue
            from .. import scenario as SC
            e = SC.transform(e, lambda x: S.sym("self._stats") if (x.op == "unknown" and str(x.args[0]) == "after-loop:self._stats") else None)
            for cj in conjuncts(e):
                # the earlier conjuncts of an `a and b` chain come back as guards of conditional values: look at the leaves
                leaves = [cj]
                while any(x.op == "cond" for x in leaves):
                    leaves = [y for x in leaves for y in ([x.args[1], x.args[2]] if x.op == "cond" else [x])]
                for lf in leaves:
                    if lf.is_const:
                        continue
                    txt = S.show(lf)
                    if any(S.compare(lf, a, domain={})["verdict"] == "equal" for a in allowed) or txt in SHAPE_OK or txt.replace("self._stats", "stats") in SHAPE_OK:
                        continue
                    rows = [x for x in S.walk(lf) if isinstance(x, S.E) and cc.is_call(x, "getitem") and x.args[1] == S.sym("self._stats")]
                    if rows:
                        ctx.bad(R, init, node, "the constructor rejects loaded statistics unless `%s`, which accumulated statistics need not satisfy in floating point "
                                "(a coefficient that is constant gives a variance that is slightly negative by round-off; sums are negative for negative-mean "
                                "features): statistics that were saved cannot be loaded again" % txt[:160],
                                "the loader's constraints hold for everything the accumulators can write", robust=True)
                    else:
                        ctx.error(R, "cannot decide whether saved statistics always satisfy the constructor's test `%s`" % txt[:120])
    # the first step reshapes to (2, -1)
    rs = [n_ for n_ in tries[0].body if isinstance(n_, ast.Assign) and astq.is_self_attr(n_.targets[0], "self", "_stats")]
    ok = len(rs) >= 1 and astq.eq_text(rs[0].value, "self._stats.reshape((2,-1))")
    ctx.check(ok, R, f, rs[0] if rs else MISSING(f.node), "flat statistics are reshaped to 2 rows", "first step is %s" % (astq.text(rs[0].value) if rs else None))


def save_structure(ctx, R="R-C17-save-guard"):
    prog = ctx.prog
    f = prog.own_method(_std(prog), "save")
    body = [s for s in f.node.body if not (isinstance(s, ast.Expr) and isinstance(s.value, ast.Constant))]
    first = body[0]
    ok = isinstance(first, ast.If) and astq.text(first.test) == "not self.have_stats" and len(first.body) == 1 and \
        isinstance(first.body[0], ast.Raise) and astq.raise_type(prog, f, first.body[0]) == "ValueError"
    ctx.check(ok, R, f, first, "saving without accumulated statistics raises ValueError before any file is touched",
              "save does not begin with `if not self.have_stats: raise ValueError`")
    R2 = "R-C17-suffix-twins"
    fname = f.params[1]
    pm = astq.parents(f)
    defs = {}
    for n_ in f.body_nodes():
        if isinstance(n_, ast.Assign) and len(n_.targets) == 1 and isinstance(n_.targets[0], ast.Name):
            defs.setdefault(n_.targets[0].id, []).append(n_.value)

    def inline(e, depth=0):
        if isinstance(e, ast.Name) and e.id != fname and len(defs.get(e.id, ())) == 1 and depth < 4:
            return inline(defs[e.id][0], depth + 1)
        return e

    def mentions_name(e):
        return any(isinstance(x, ast.Name) and (x.id == fname or (len(defs.get(x.id, ())) == 1 and mentions_name(defs[x.id][0]))) for x in ast.walk(e))

    def suffix_pred(test):
        """(ext, exact) for a test that selects names by suffix; None when the test does not involve the file name."""
        if not mentions_name(test):
            return None
        t = test
        ext, base = None, None
        if isinstance(t, ast.Call) and isinstance(t.func, ast.Attribute) and t.func.attr == "endswith" and len(t.args) == 1:
            ext, base = astq.const_str(t.args[0]), inline(t.func.value)
        elif isinstance(t, ast.Compare) and len(t.ops) == 1 and isinstance(t.ops[0], ast.Eq):
            l, r = inline(t.left), inline(t.comparators[0])
            if astq.const_str(l) is not None:
                l, r = r, l
            ext = astq.const_str(r)
            base = l
            folded_outer = False
            while isinstance(base, ast.Call) and isinstance(base.func, ast.Attribute) and base.func.attr in ("lower", "upper", "casefold") and not base.args:
                folded_outer = True
                base = inline(base.func.value)
            if isinstance(base, ast.Subscript) and ext is not None and astq.text(base.slice) == "-%d:" % len(ext):
                base = inline(base.value)
            elif isinstance(base, ast.Subscript) and astq.text(base.slice) in ("1", "-1") and isinstance(base.value, ast.Call) and \
                    (prog.qualify(f.module, base.value.func, f) or "") == "os.path.splitext" and base.value.args:
                base = inline(base.value.args[0])
            else:
                ext = None
            if folded_outer and ext is not None:
                return (ext.lower(), False)
        if ext is None:
            raise AnalysisError("%s: cannot classify the file-name test `%s`" % (R2, astq.text(test)[:80]))
        folded = False
        while isinstance(base, ast.Call) and isinstance(base.func, ast.Attribute) and base.func.attr in ("lower", "upper", "casefold", "strip") and not base.args:
            folded = True
            base = inline(base.func.value)
        if not astq.is_name(base, fname):
            raise AnalysisError("%s: cannot classify the file-name test `%s`" % (R2, astq.text(test)[:80]))
        return (ext.lower(), (not folded) and ext in (".npy", ".npz"))

    def path_preds(node):
        out = []
        child = node
        for a in astq.ancestors(pm, node):
            if isinstance(a, ast.If):
                sp = suffix_pred(a.test)
                if sp is not None:
                    in_body = any(child is x_ for x_ in a.body)
                    out.append((sp, in_body, a))
            child = a
        return out

    def callee_quals(c):
        """qualified names a call may resolve to: directly, or through a local bound to `A if test else B`"""
        q = prog.qualify(f.module, c.func, f)
        if q:
            return {q: None}
        ie = None
        if isinstance(c.func, ast.Name) and len(defs.get(c.func.id, ())) == 1 and isinstance(defs[c.func.id][0], ast.IfExp):
            ie = defs[c.func.id][0]
        elif isinstance(c.func, ast.IfExp):
            ie = c.func
        if ie is not None:
            qa, qb = prog.qualify(f.module, ie.body, f), prog.qualify(f.module, ie.orelse, f)
            if qa and qb:
                return {qa: (astq.text(ie.test), True), qb: (astq.text(ie.test), False)}
        return {}

    writers = {"npy": [], "npz": [], "raw": []}
    for c in astq.func_calls(f):
        qs = callee_quals(c)
        q = next(iter(qs), "") if len(qs) == 1 else ""
        if q == "numpy.save":
            writers["npy"].append(c)
        elif qs and set(qs) <= {"numpy.savez", "numpy.savez_compressed"}:
            writers["npz"].append(c)
        elif astq.attr_call(c, "tofile"):
            writers["raw"].append(c)
    ctx.need(all(writers.values()), R2, "save no longer has np.save, np.savez* and tofile writers: %s" % {k: len(v) for k, v in writers.items()})
    WHY = ("numpy appends its own suffix unless the name ends with exactly '%s' (case-sensitive), so for a name selected by this test but not "
           "ending so the statistics go to a different file than the one named, and reloading the named file fails")
    for kindw, calls_ in writers.items():
        for c in calls_:
            preds = path_preds(c)
            pos = [(sp, a) for sp, inb, a in preds if inb]
            neg = [(sp, a) for sp, inb, a in preds if not inb]
            if kindw == "raw":
                exts = {sp[0] for sp, a in neg}
                ctx.check(not pos and {".npy", ".npz"} <= exts, R2, f, astq.enclosing_stmt(pm, c),
                          "every name that is not a .npy / .npz target is written raw with tofile",
                          "tofile is reached under suffix tests +%s -%s" % ([sp for sp, a in pos], sorted(exts)))
                ctx.check(astq.eq_text(c, "self._stats.tofile(%s)" % fname), R2, f, astq.enclosing_stmt(pm, c), "the raw writer writes the whole matrix to the named file",
                          "raw writer is %s" % astq.text(c)[:80], structural=True)
                continue
            want = "." + kindw
            ctx.check(len(pos) == 1 and pos[0][0][0] == want, R2, f, astq.enclosing_stmt(pm, c),
                      "%s targets (and only they) are written with numpy's %s writer" % (want, kindw),
                      "numpy's %s writer is reached under suffix tests %s" % (kindw, [sp for sp, a in pos]))
            if len(pos) == 1 and pos[0][0][0] == want:
                ctx.check(pos[0][0][1], R2, f, pos[0][1], "the %s test is the exact, case-sensitive suffix test numpy itself applies" % want,
                          "`%s` selects names that do not end with exactly '%s': " % (astq.text(pos[0][1].test)[:60], want) + WHY % want)
            def _named_target(a_):
                if astq.is_name(a_, fname):
                    return True
                # a file object opened on exactly that name for binary writing (numpy adds no suffix to file objects)
                if isinstance(a_, ast.Name):
                    for w_ in astq.ancestors(pm, c):
                        if isinstance(w_, ast.With):
                            for it_ in w_.items:
                                ce = it_.context_expr
                                if (astq.is_name(it_.optional_vars, a_.id) and isinstance(ce, ast.Call) and astq.is_name(ce.func, "open") and ce.args
                                        and astq.is_name(ce.args[0], fname)):
                                    mode = ce.args[1] if len(ce.args) > 1 else astq.kw(ce, "mode")
                                    return isinstance(mode, ast.Constant) and isinstance(mode.value, str) and "w" in mode.value and "b" in mode.value
                return False
            ctx.check(_named_target(c.args[0]) if c.args else False, R2, f, astq.enclosing_stmt(pm, c), "numpy's writer is given the file name unchanged",
                      "numpy's %s writer is given %s" % (kindw, astq.text(c.args[0])[:60] if c.args else None))
            if kindw == "npy":
                ctx.check(len(c.args) == 2 and astq.eq_text(c.args[1], "self._stats"), R2, f, astq.enclosing_stmt(pm, c), "np.save stores the statistics matrix",
                          "np.save stores %s" % (astq.text(c.args[1])[:60] if len(c.args) > 1 else None), structural=True)
    npzs = [a for sp, inb, a in path_preds(writers["npz"][0]) if inb and sp[0] == ".npz"]
    ctx.need(npzs, R2, ".npz branch not found")
    npz = npzs[0]
    st = [n for n in ast.walk(npz) if isinstance(n, ast.Assign) and isinstance(n.targets[0], ast.Subscript) and astq.text(n.value) == "self._stats"]
    sv = [c for c in writers["npz"] if any(x is c for x in ast.walk(npz))]
    kinds = {}
    for c in sv:
        for q, sel in callee_quals(c).items():
            kinds.setdefault(q, []).append((c, sel))
    ok = set(kinds) == {"numpy.savez", "numpy.savez_compressed"} and all(astq.text(c.args[0]) == fname and any(k.arg is None for k in c.keywords) for c in sv)
    ctx.check(ok, R2, f, npz, "the archive is rewritten with savez / savez_compressed(wfilename, **entries) according to `compress`",
              "npz writers are %s" % sorted(kinds))
    for q, lst in kinds.items():
        want_body = q == "numpy.savez_compressed"
        for c, sel in lst:
            if sel is not None:
                ok = sel[0] == "compress" and sel[1] == want_body
            else:
                g = [a for a in astq.ancestors(pm, c) if isinstance(a, ast.If) and astq.text(a.test) == "compress"]
                ok = bool(g) and (any(x is c for s_ in g[0].body for x in ast.walk(s_)) == want_body)
            ctx.check(ok, R2, f, c, "%s is used iff compress is %s" % (q.replace("numpy", "np"), want_body))
    # entries are merged so that a new entry REPLACES an old one with the same key
    for c in sv:
        stars = [k for k in c.keywords if k.arg is None]
        named = [k for k in c.keywords if k.arg is not None]
        ctx.check(len(stars) == 1 and not named, "R-C17-entry-replaces", f, c,
                  "all entries reach numpy through one mapping (an entry saved again under its key replaces the old one)",
                  "the writer is called with %d `**` mappings%s: when the loaded archive already holds the key being saved (a second save "
                  "under the same key, keeping the other entries) Python raises TypeError for the duplicate keyword instead of replacing the entry"
                  % (len(stars), " and explicit keywords" if named else ""))
    if len(sv) and all(len([k for k in c.keywords if k.arg is None]) == 1 for c in sv):
        ok = len(st) == 1 and astq.text(st[0].targets[0].slice) == "key"
        ctx.check(ok, R2, f, st[0] if st else MISSING(npz), "the statistics matrix is stored in the archive under `key`")
    # overwrite flag consulted for loading the existing archive
    R3 = "R-C17-overwrite-flag"
    loads = [c for c in ast.walk(npz) if isinstance(c, ast.Call) and prog.qualify(f.module, c.func, f) == "numpy.load"]
    ctx.need(len(loads) == 1, R3, "np.load in the .npz branch not found")
    g = [astq.text(a.test) for a in astq.ancestors(pm, loads[0]) if isinstance(a, ast.If)]
    ok = any(t in ("overwrite", "not overwrite") for t in g)
    ctx.check(ok, R3, f, astq.enclosing_stmt(pm, loads[0]), "`overwrite` decides whether the entries of an existing archive are loaded (kept)",
              "loading of the existing archive is not controlled by the overwrite flag (guards: %s)" % g)
    ctx.info["overwrite_semantics"] = ("existing entries are kept when overwrite is %s (the docstring says they are kept when overwrite is False); the property only "
                                       "requires that the flag decides" % ("True" if "overwrite" in g else "False"))
    tr = [a for a in astq.ancestors(pm, loads[0]) if isinstance(a, ast.Try)]
    ok = len(tr) == 1 and all(prog.dotted(h.type) in ("IOError", "OSError", "FileNotFoundError") for h in tr[0].handlers)
    ctx.check(ok, R3, f, tr[0] if tr else MISSING(npz), "a missing archive is tolerated (IOError caught) and nothing else is swallowed")


def no_process_state(ctx, R="R-C17-loader"):
    """what an instance loads is what the file holds when it is constructed, and what it saves is what it accumulated: no method
    of Standardize goes through a memoised reader or keeps anything in class- or module-level containers (a statistics file read
    once per process would hide every later save to the same path; an array shared between instances is updated in place by accumulate)"""
    from .c20 import no_shared_state
    prog = ctx.prog
    c = _std(prog)
    n = 0
    for fi in prog.functions.values():
        if fi.cls is c and fi.parent is None:
            n += 1
            no_shared_state(ctx, R, fi, "Standardize.%s" % fi.name, allow_self=True)
    ctx.floor(R + "/methods", n, 8)


def default_key(ctx, R="R-C17-default-key"):
    prog = ctx.prog
    f = prog.own_method(_std(prog), "save")
    # a save without key must reach the search for an unused arr_<k>: the parameter's default is None
    kd = f.defaults.get("key")
    ctx.check(kd is None or (isinstance(kd, ast.Constant) and kd.value is None), R, f, f.node,
              "a save without key looks for the first unused arr_<k> (the key parameter defaults to None)",
              "save's key defaults to %s: a save without key into an archive that already holds that entry replaces it instead of being added under the next unused arr_<k>"
              % (astq.text(kd) if kd is not None else None), robust=True)
    ks = [n for n in f.body_nodes() if isinstance(n, ast.If) and astq.text(n.test) == "key is None"]
    ctx.need(len(ks) == 1, R, "`if key is None` not found in save")
    blk = ks[0]
    member = [x for x in ast.walk(blk) if isinstance(x, ast.Compare) and any(isinstance(o, (ast.In, ast.NotIn)) for o in x.ops)
              and any(astq.is_name(c, "array") for c in x.comparators)]
    starts0 = any(isinstance(x, ast.Call) and ((astq.is_name(x.func, "count") and (not x.args or astq.text(x.args[0]) == "0"))
                                                or (astq.is_name(x.func, "range"))) for x in ast.walk(blk)) or \
        any(isinstance(x, ast.Assign) and isinstance(x.value, ast.Constant) and x.value.value == 0 for x in ast.walk(blk))
    pattern = any(isinstance(x, ast.Constant) and isinstance(x.value, str) and x.value.startswith("arr_") for x in ast.walk(blk))
    ctx.check(pattern, R, f, blk, "the default key follows the pattern arr_<k>", "the default key does not follow arr_<k>")
    # the search stops only at an UNUSED key: stopping at a key the archive already holds overwrites that entry
    pmk = astq.parents(f)
    for br in [x for x in ast.walk(blk) if isinstance(x, ast.Break)]:
        gs = [a for a in astq.ancestors(pmk, br) if isinstance(a, ast.If) and any(a is y for y in ast.walk(blk))]
        for g_ in gs:
            t = g_.test
            if isinstance(t, ast.BoolOp) and isinstance(t.op, ast.Or):
                extra = [astq.text(v) for v in t.values if not (isinstance(v, ast.Compare) and len(v.ops) == 1 and isinstance(v.ops[0], ast.NotIn))]
                if extra:
                    ctx.bad(R, f, g_, "the search for the default key also stops when `%s`, i.e. at a key the archive already holds: an un-keyed save in "
                            "keeping mode then silently replaces an existing entry (for example another speaker's statistics of the same shape)"
                            % extra[0][:80], "the default key is the first UNUSED arr_<k>")
    ctx.check(bool(member) and starts0, R, f, blk,
              "the default key is the first unused arr_<k>, found by testing membership in the archive from k = 0",
              "the default key is chosen without searching the archive's keys from arr_0 upward (%s): when the archive holds named entries "
              "the statistics are stored under arr_<n> with n > 0, but the un-keyed reader loads arr_0"
              % ("no membership test against the archive" if not member else "search does not start at 0"))
    rdr = prog.func("util._numpy_archive_read_signal")
    txt = astq.text(rdr.node)
    # by value: with no key the reader returns the archive's 'arr_0' (however the choice between key and default is spelt)
    ok_default = "archive['arr_0']" in txt
    try:
        from .. import scenario as SC
        evr = SymEval(prog, rdr).run()
        rv = None
        for g_, v_, _ in reversed(evr.returns):
            rv = v_ if rv is None else S.cond(g_, v_, rv)
        if rv is not None:
            rv = SC.lift_conds(rv)
            nokey = SC.transform(rv, lambda x: S.NONE if (x.op == "sym" and x.args[0] == "key") else None)
            ok_default = any(cc.is_call(x, "getitem") and len(x.args) == 3 and x.args[2].is_const and x.args[2].value == "arr_0" for x in S.walk(nokey) if isinstance(x, S.E)) \
                and not any(cc.is_call(x, "getitem") and len(x.args) == 3 and x.args[2] == S.NONE for x in S.walk(nokey) if isinstance(x, S.E))
    except Exception:
        pass
    ctx.check(ok_default, R, rdr, rdr.node, "the un-keyed archive reader loads arr_0 (the writer's default for a fresh archive)")


def loader(ctx, R="R-C17-loader"):
    prog = ctx.prog
    init = prog.own_method(_std(prog), "__init__")
    loops = [n for n in init.body_nodes() if isinstance(n, ast.For) and astq.is_name(n.target, "dtype")]
    ctx.need(len(loops) == 1, R, "dtype probing loop not found in Standardize.__init__")
    it = astq.text(loops[0].iter).replace(" ", "")
    ctx.check(it.startswith("(np.float64,"), R, init, loops[0], "float64 (what save writes) is tried first when probing the file", "probing order is %s" % it)
    calls = [c for c in astq.calls_in(loops[0]) if astq.is_name(c.func, "read_signal")]
    ok = len(calls) == 1 and astq.text(calls[0].args[0]) == "rfilename" and any(k.arg == "dtype" and astq.text(k.value) == "dtype" for k in calls[0].keywords) \
        and any(k.arg is None for k in calls[0].keywords)
    ctx.check(ok, R, init, calls[0] if calls else MISSING(loops[0]), "statistics are read with read_signal(rfilename, dtype=..., **kwargs): every target save can write has a reader")
    san = [c for c in astq.func_calls(init) if astq.attr_call(c, "_sanitize_stats")]
    pm = astq.parents(init)
    g = [astq.text(a.test).replace(" ", "") for a in astq.ancestors(pm, san[0]) if isinstance(a, ast.If)] if san else []
    ctx.check(bool(san) and "len(self._stats.shape)==1" in g, R, init, san[0] if san else MISSING(init.node),
              "only flat (raw binary) statistics go through the float-width heuristic; .npy/.npz matrices are used as loaded")
    # read_signal has readers for npy / npz (key) / file
    rs = prog.func("util.read_signal")
    txt = astq.text(rs.node)
    for kind in ("npy", "npz", "file"):
        ctx.check("force_as == '%s'" % kind in txt, R, rs, rs.node, "read_signal handles '%s'" % kind, "read_signal no longer handles %s" % kind, structural=True)



def nothing_pending(ctx, R="R-C17-save-complete"):
    """What accumulate records is what save writes: data taken from the features and kept on the instance anywhere but in the
    statistics matrix (a buffer of pending vectors, a partial sum) must be read - directly or through a method it calls - by
    save, otherwise the saved file lacks it and the reloaded transform differs from the one the object applies."""
    from .c04 import attr_writes
    prog = ctx.prog
    c = _std(prog)
    acc = prog.own_method(c, "accumulate")

    def reach(start):
        seen, todo = [], [start]
        while todo:
            g = todo.pop()
            if g in seen:
                continue
            seen.append(g)
            for call in astq.func_calls(g):
                if isinstance(call.func, ast.Attribute) and g.params and astq.is_name(call.func.value, g.params[0]):
                    m = prog.find_method(c, call.func.attr)
                    if m is not None and m not in seen:
                        todo.append(m)
        return seen

    pending = {}
    for g in reach(acc):
        data_names = set(g.params[1:2])
        # locals computed from the data parameter
        for n in g.body_nodes():
            if isinstance(n, ast.Assign) and any(isinstance(x, ast.Name) and x.id in data_names for x in ast.walk(n.value)):
                data_names.update(t.id for t in n.targets if isinstance(t, ast.Name))
        for attr, kind, node in attr_writes(g):
            if attr in ("_stats",):
                continue
            val = node.value if isinstance(node, (ast.Assign, ast.AugAssign)) else node
            if any(isinstance(x, ast.Name) and x.id in data_names for x in ast.walk(val)):
                pending.setdefault(attr, (g, node))
    save = prog.own_method(c, "save")
    read_by_save = set()
    for g in reach(save):
        if g.params:
            read_by_save.update(x.attr for x in g.body_nodes() if astq.is_self_attr(x, g.params[0]))
    for attr, (g, node) in sorted(pending.items()):
        ctx.check(attr in read_by_save, R, g, node, "data kept in self.%s by accumulate is taken into account by save" % attr,
                  "accumulate keeps data from the features in self.%s (%s) but save neither reads it nor calls a method that does: statistics saved "
                  "before it is folded into the matrix lack those vectors, and the reloaded transform differs" % (attr, astq.text(node)[:70]), robust=True)
    if not pending:
        ctx.ok(R, acc.loc(), "accumulate keeps data from the features only in the statistics matrix, which is what save writes")


def loaded_stats_are_live(ctx, R="R-C17-loader"):
    """Statistics that were saved and loaded again must behave as the statistics they are: anything the object derives from them (a
    cached "have statistics" flag, cached means and scales) has to be refreshed wherever the statistics are written - the loader
    included.  The derived-state rule of Standardize (C16) is a premise of the round trip and is re-established here."""
    from . import c16
    c16.derived_state(ctx, R)
