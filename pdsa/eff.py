"""EFF - effects / aliasing domain (DESIGN §1.3).

Flow-sensitive may-alias analysis on the statement CFG: every name maps to the set
of *roots* it may alias (a parameter, a self attribute, fresh storage).  In-place
sinks through an alias of a tracked parameter are write events.  The analysis is
path-sensitive on exactly one thing: a boolean flag parameter named by the rule
(``in_place``, ``copy``), refined at ``if`` tests by three-valued evaluation.
Callee summaries (which parameters may be written, under which flag values, and
which parameters the return value may alias) are computed to a fixpoint.
"""

import ast

from .cfg import CFG, header_walk, edges_state
from .model import FunctionInfo, ClassInfo

FRESH = ("fresh",)
UNKNOWN = ("unknown",)

VIEW_ATTRS = {"real", "imag", "T", "flat", "data", "mT", "H"}
VIEW_METHODS = {"reshape", "view", "ravel", "squeeze", "transpose", "swapaxes", "diagonal", "numpy", "cpu", "detach",
                "contiguous", "as_strided", "unsqueeze", "expand", "flip_", "t", "permute", "narrow", "unfold", "view_as",
                "reshape_as", "__getitem__", "items", "values", "keys", "get"}
VIEW_FUNCS = {"numpy.asarray", "numpy.asanyarray", "numpy.moveaxis", "numpy.reshape", "numpy.squeeze", "numpy.transpose",
              "numpy.ravel", "numpy.atleast_1d", "numpy.atleast_2d", "numpy.broadcast_to", "numpy.swapaxes",
              "numpy.frombuffer", "torch.from_numpy", "torch.as_tensor", "numpy.ascontiguousarray", "numpy.rollaxis",
              "numpy.expand_dims", "memoryview"}
# list-only mutators (append / extend / insert / remove) are deliberately absent: they change a
# container, never the arrays it holds
INPLACE_METHODS = {"fill", "sort", "put", "itemset", "resize", "partition", "setfield", "__setitem__", "clear", "pop",
                   "popitem", "update", "setdefault", "__delitem__"}
INPLACE_FUNCS_ARG0 = {"numpy.copyto", "numpy.put", "numpy.place", "numpy.fill_diagonal", "numpy.putmask", "numpy.random.shuffle"}


class Write:
    __slots__ = ("node", "stmt", "roots", "flags", "how", "func")

    def __init__(self, func, node, stmt, roots, flags, how):
        self.func, self.node, self.stmt, self.roots, self.flags, self.how = func, node, stmt, roots, flags, how


def tri(test, flagname, val, call_hook=None):
    """Three-valued evaluation of ``test`` with the flag fixed to ``val``: True/False/None.  ``call_hook(call, flag, val)``
    evaluates a call to a predicate helper (single ``return <boolean expression>``) the same way; its attribute ``defs``
    maps a local that is bound exactly once to the expression it names."""
    if isinstance(test, ast.Name) and test.id == flagname:
        return val
    if isinstance(test, ast.Name) and call_hook is not None and test.id in getattr(call_hook, "defs", {}):
        d = call_hook.defs[test.id]
        if d is not test:
            return tri(d, flagname, val, call_hook)
    if isinstance(test, ast.Call) and call_hook is not None:
        return call_hook(test, flagname, val)
    if isinstance(test, ast.Constant):
        return bool(test.value)
    if isinstance(test, ast.UnaryOp) and isinstance(test.op, ast.Not):
        v = tri(test.operand, flagname, val, call_hook)
        return None if v is None else (not v)
    if isinstance(test, ast.BoolOp):
        vals = [tri(v, flagname, val, call_hook) for v in test.values]
        if isinstance(test.op, ast.And):
            if any(v is False for v in vals):
                return False
            if all(v is True for v in vals):
                return True
            return None
        if any(v is True for v in vals):
            return True
        if all(v is False for v in vals):
            return False
        return None
    return None


class Effects:
    def __init__(self, prog, flag=None, disjunctive=False):
        self.prog = prog
        self.flag = flag
        self.disjunctive = disjunctive
        self._summ = {}
        self._active = set()

    # ------------------------------------------------------------- summaries
    def summary(self, f):
        """(writes: {param index: set of flag values under which written},
            returns: set of param indices the result may alias)"""
        if f.qualname in self._summ:
            return self._summ[f.qualname]
        if f.qualname in self._active:
            return ({}, set())  # recursion: optimistic, fixed by iteration below
        self._active.add(f.qualname)
        try:
            for _ in range(3):
                res = self._analyse(f, tracked=None)
                writes, rets = {}, set()
                for w in res["writes"]:
                    for r in w.roots:
                        if r[0] == "param" and r[1] in f.all_param_names():
                            i = f.all_param_names().index(r[1])
                            writes.setdefault(i, set()).update(w.flags)
                for r in res["returns"]:
                    if r[0] == "param" and r[1] in f.all_param_names():
                        rets.add(f.all_param_names().index(r[1]))
                new = (writes, rets)
                if self._summ.get(f.qualname) == new:
                    break
                self._summ[f.qualname] = new
        finally:
            self._active.discard(f.qualname)
        return self._summ[f.qualname]

    def writes_to(self, f, param, exclude_flag_values=()):
        """Write events of f (including through callees) whose target may alias
        parameter ``param``."""
        res = self._analyse(f, tracked=param)
        return [w for w in res["writes"] if ("param", param) in w.roots], res

    # -------------------------------------------------------------- analysis
    def _callee(self, f, call, env):
        prog = self.prog
        fn = call.func
        q = prog.qualify(f.module, fn, f)
        if q is not None:
            t = prog.lookup(q)
            if isinstance(t, FunctionInfo):
                return t, 0, q
            if isinstance(t, ClassInfo):
                init = prog.find_method(t, "__init__")
                return (init, 1, q) if init is not None else (None, 0, q)
            return None, 0, q
        if isinstance(fn, ast.Attribute) and isinstance(fn.value, ast.Name) and f.cls is not None and f.params and fn.value.id == f.params[0] \
                and not f.is_staticmethod:
            m = prog.find_method(f.cls, fn.attr)
            if m is not None:
                return m, (0 if m.is_staticmethod else 1), None
        if isinstance(fn, ast.Attribute) and isinstance(fn.value, ast.Call) and isinstance(fn.value.func, ast.Name) and fn.value.func.id == "super" and f.cls is not None:
            for k in prog.mro(f.cls)[1:]:
                if fn.attr in k.methods:
                    return k.methods[fn.attr], 1, None
        return None, 0, q

    def roots(self, f, e, env):
        prog = self.prog
        if isinstance(e, ast.Name):
            return env.get(e.id, frozenset([FRESH]))
        if isinstance(e, ast.Constant):
            return frozenset([FRESH])
        if isinstance(e, ast.Attribute):
            if isinstance(e.value, ast.Name) and f.cls is not None and f.params and e.value.id == f.params[0] and not f.is_staticmethod:
                key = "self." + e.attr
                return env.get(key, frozenset([("self", e.attr)]))
            if e.attr in VIEW_ATTRS:
                return self.roots(f, e.value, env)
            return frozenset([FRESH])
        if isinstance(e, ast.Subscript):
            return self.roots(f, e.value, env)
        if isinstance(e, ast.Starred):
            return self.roots(f, e.value, env)
        if isinstance(e, ast.IfExp):
            return self.roots(f, e.body, env) | self.roots(f, e.orelse, env)
        if isinstance(e, ast.BoolOp):
            out = frozenset()
            for v in e.values:
                out |= self.roots(f, v, env)
            return out
        if isinstance(e, (ast.Tuple, ast.List, ast.Set)):
            out = frozenset([FRESH])
            for v in e.elts:
                out |= self.roots(f, v, env)
            return out
        if isinstance(e, ast.NamedExpr):
            return self.roots(f, e.value, env)
        if isinstance(e, ast.Call):
            fn = e.func
            q = prog.qualify(f.module, fn, f)
            if q in VIEW_FUNCS and e.args:
                return self.roots(f, e.args[0], env)
            callee, off, q = self._callee(f, e, env)
            if callee is not None:
                writes, rets = self.summary(callee)
                out = frozenset([FRESH])
                actuals = self._actuals(callee, off, e, f, env)
                for i in rets:
                    a = actuals.get(i)
                    if a is not None:
                        out |= a
                return out
            if isinstance(fn, ast.Attribute) and q is None:
                if fn.attr in VIEW_METHODS:
                    return self.roots(f, fn.value, env)
                if fn.attr in ("astype", "to", "type", "float", "double"):
                    c = [k for k in e.keywords if k.arg == "copy"]
                    if fn.attr == "astype" and not (c and isinstance(c[0].value, ast.Constant) and c[0].value.value is False):
                        return frozenset([FRESH])
                    return self.roots(f, fn.value, env) | frozenset([FRESH])
            return frozenset([FRESH])
        return frozenset([FRESH])

    def _actuals(self, callee, off, call, f, env):
        names = callee.all_param_names()
        out = {}
        if off == 1 and isinstance(call.func, ast.Attribute):
            out[0] = self.roots(f, call.func.value, env) if not isinstance(call.func.value, ast.Call) else frozenset([FRESH])
        for j, a in enumerate(call.args):
            if isinstance(a, ast.Starred):
                continue
            if j + off < len(names):
                out[j + off] = self.roots(f, a, env)
        for k in call.keywords:
            if k.arg in names:
                out[names.index(k.arg)] = self.roots(f, k.value, env)
        return out

    def _analyse(self, f, tracked):
        flag = self.flag if (self.flag and self.flag in f.all_param_names()) else None
        if flag is None:
            return self._analyse1(f, tracked, frozenset([True, False]))
        # one run per value of the flag keeps aliasing and flag value correlated
        out = {"writes": [], "returns": set(), "cfg": None}
        for v in (True, False):
            r = self._analyse1(f, tracked, frozenset([v]), disjunctive=self.disjunctive)
            out["cfg"] = r["cfg"]
            out["returns"] |= r["returns"]
            for w in r["writes"]:
                for o in out["writes"]:
                    if o.stmt is w.stmt and o.how == w.how and o.roots == w.roots:
                        o.flags = frozenset(o.flags | w.flags)
                        break
                else:
                    out["writes"].append(w)
        return out

    def _predicate(self, f):
        """hook for tri(): a call to a helper whose body is one ``return <expr>`` is decided on that expression"""
        def hook(call, flagname, val, depth=[0]):
            callee, off, _ = self._callee(f, call, {})
            if callee is None or depth[0] > 3 or any(isinstance(a, ast.Starred) for a in call.args):
                return None
            body = [s for s in callee.node.body if not (isinstance(s, ast.Expr) and isinstance(s.value, ast.Constant))]
            if len(body) != 1 or not isinstance(body[0], ast.Return) or body[0].value is None:
                return None
            names = callee.all_param_names()[off:] if not callee.is_staticmethod or off == 0 else callee.all_param_names()
            if callee.is_staticmethod:
                names = callee.all_param_names()
            formal = None
            for i, a in enumerate(call.args):
                if isinstance(a, ast.Name) and a.id == flagname and i < len(names):
                    formal = names[i]
            for k in call.keywords:
                if isinstance(k.value, ast.Name) and k.value.id == flagname:
                    formal = k.arg
            if formal is None:
                return None
            depth[0] += 1
            try:
                return tri(body[0].value, formal, val, self._predicate(callee))
            finally:
                depth[0] -= 1
        return hook

    def result_roots(self, f, flag_value):
        """what the value returned by f may alias when the flag has the given value - decided path by path (states are kept
        apart at control-flow merges, so `x = fresh; flag = True` on one path does not leak into the other)"""
        return self._analyse1(f, None, frozenset([flag_value]), disjunctive=True)["returns"]

    def _analyse1(self, f, tracked, flags0, disjunctive=False):
        cfg = CFG(_desugar_ifexp(f.node))
        hook = self._predicate(f)
        # locals bound exactly once to a boolean-looking expression stand for it in tests
        once = {}
        for n_ in f.body_nodes():
            if isinstance(n_, ast.Assign) and len(n_.targets) == 1 and isinstance(n_.targets[0], ast.Name):
                once.setdefault(n_.targets[0].id, []).append(n_.value)
            elif isinstance(n_, (ast.AugAssign, ast.AnnAssign, ast.For, ast.With, ast.NamedExpr)):
                for x_ in ast.walk(n_):
                    if isinstance(x_, ast.Name) and isinstance(x_.ctx, ast.Store):
                        once.setdefault(x_.id, []).extend([None, None])
        hook.defs = {k: v[0] for k, v in once.items() if len(v) == 1 and isinstance(v[0], (ast.BoolOp, ast.Compare, ast.UnaryOp, ast.Name))
                     and k not in f.all_param_names()}
        flag = self.flag if (self.flag and self.flag in f.all_param_names()) else None
        env0 = {}
        for p in f.all_param_names():
            env0[p] = frozenset([("param", p)])
        # state: (env as frozenset of items, orig flags frozenset, cur: 'orig' | frozenset)
        init = (frozenset(env0.items()), flags0, "orig")
        writes = []
        returns = set()
        seen_w = set()

        def record(node, st, roots_, flags, how):
            key = (node, how, roots_)
            if key in seen_w:
                for w in writes:
                    if (w.node, w.how, w.roots) == key:
                        w.flags = frozenset(w.flags | flags)
                return
            seen_w.add(key)
            writes.append(Write(f, node, st, roots_, frozenset(flags), how))

        def transfer(n, state):
            env = dict(state[0])
            orig, cur = state[1], state[2]
            st = cfg.stmt[n]
            if st is None:
                return state
            flags_now = orig
            # sinks in calls appearing in this node
            for x in header_walk(st):
                if isinstance(x, ast.Call):
                    fn = x.func
                    q = self.prog.qualify(f.module, fn, f)
                    if isinstance(fn, ast.Attribute) and q is None:
                        flagged = fn.attr == "byteswap" and ((x.args and isinstance(x.args[0], ast.Constant) and x.args[0].value is True) or any(
                            k.arg == "inplace" and isinstance(k.value, ast.Constant) and k.value.value is True for k in x.keywords))
                        if flagged:
                            record(n, st, self.roots(f, fn.value, env), flags_now, ".byteswap(inplace=True)")
                        if fn.attr in INPLACE_METHODS or (fn.attr.endswith("_") and not fn.attr.startswith("_") and len(fn.attr) > 2):
                            record(n, st, self.roots(f, fn.value, env), flags_now, "." + fn.attr + "()")
                    if q in INPLACE_FUNCS_ARG0 and x.args:
                        record(n, st, self.roots(f, x.args[0], env), flags_now, q)
                    for k in x.keywords:
                        if k.arg == "out":
                            record(n, st, self.roots(f, k.value, env), flags_now, "out=")
                        if k.arg in ("overwrite_x", "overwrite_input") and isinstance(k.value, ast.Constant) and k.value.value is True and x.args:
                            record(n, st, self.roots(f, x.args[0], env), flags_now, k.arg + "=True")
                    callee, off, q2 = self._callee(f, x, env)
                    if callee is not None and callee is not f:
                        cw, _ = self.summary(callee)
                        if cw:
                            actuals = self._actuals(callee, off, x, f, env)
                            cnames = callee.all_param_names()
                            # flag actual
                            cf = None
                            if self.flag and self.flag in cnames:
                                i = cnames.index(self.flag)
                                a = None
                                if i - off < len(x.args) and i - off >= 0 and not any(isinstance(z, ast.Starred) for z in x.args[: i - off + 1]):
                                    a = x.args[i - off]
                                for k in x.keywords:
                                    if k.arg == self.flag:
                                        a = k.value
                                if a is None:
                                    d = callee.defaults.get(self.flag)
                                    a = d
                                cf = a
                            for i, needs in cw.items():
                                a = actuals.get(i)
                                if a is None:
                                    continue
                                fl = set()
                                for v in flags_now:
                                    # value of callee flag when caller flag == v
                                    if cf is None:
                                        cvals = {True, False}
                                    elif isinstance(cf, ast.Constant):
                                        cvals = {bool(cf.value)}
                                    elif isinstance(cf, ast.Name) and flag and cf.id == flag and cur == "orig":
                                        cvals = {v}
                                    elif isinstance(cf, ast.Name) and flag and cf.id == flag and cur != "orig":
                                        cvals = set(cur)
                                    else:
                                        cvals = {True, False}
                                    if cvals & set(needs):
                                        fl.add(v)
                                if fl:
                                    record(n, st, a, fl, "call " + callee.short)
            # statement effects
            if isinstance(st, ast.Assign):
                val = self.roots(f, st.value, env)
                for t in st.targets:
                    self._assign(f, t, val, env, n, st, flags_now, record, st.value)
                if disjunctive and isinstance(st.value, ast.Constant) and isinstance(st.value.value, bool):
                    # a local switch set to a literal: remembered, so that a later `if switch:` follows the path it was set on
                    for t in st.targets:
                        if isinstance(t, ast.Name) and t.id != flag:
                            env[t.id] = frozenset([("const", st.value.value)])
                if flag:
                    for t in st.targets:
                        if isinstance(t, ast.Name) and t.id == flag:
                            if isinstance(st.value, ast.Constant):
                                cur = frozenset([bool(st.value.value)])
                            else:
                                cur = frozenset([True, False])
            elif isinstance(st, ast.AnnAssign) and st.value is not None:
                self._assign(f, st.target, self.roots(f, st.value, env), env, n, st, flags_now, record, st.value)
            elif isinstance(st, ast.AugAssign):
                t = st.target
                if isinstance(t, ast.Subscript):
                    record(n, st, self.roots(f, t.value, env), flags_now, "augmented item assignment")
                elif isinstance(t, ast.Name):
                    r = env.get(t.id, frozenset([FRESH]))
                    if any(x[0] in ("param", "self") for x in r):
                        record(n, st, r, flags_now, "augmented assignment")
                elif isinstance(t, ast.Attribute):
                    r = self.roots(f, t, env)
                    record(n, st, r, flags_now, "augmented attribute assignment")
            elif isinstance(st, (ast.For, ast.AsyncFor)):
                val = self.roots(f, st.iter, env)
                for nm in _names(st.target):
                    env[nm] = val
            elif isinstance(st, (ast.With, ast.AsyncWith)):
                for it in st.items:
                    if it.optional_vars is not None:
                        for nm in _names(it.optional_vars):
                            env[nm] = self.roots(f, it.context_expr, env)
            elif isinstance(st, ast.Return):
                if st.value is not None:
                    returns.update(self.roots(f, st.value, env))
            elif isinstance(st, ast.Delete):
                for t in st.targets:
                    if isinstance(t, ast.Subscript):
                        record(n, st, self.roots(f, t.value, env), flags_now, "item deletion")
            new_env = frozenset(env.items())
            if disjunctive and isinstance(st, (ast.If, ast.While)):
                t_ = st.test
                neg_ = False
                while isinstance(t_, ast.UnaryOp) and isinstance(t_.op, ast.Not):
                    t_, neg_ = t_.operand, not neg_
                if isinstance(t_, ast.Name):
                    cv = env.get(t_.id)
                    if cv is not None and len(cv) == 1 and next(iter(cv))[0] == "const":
                        truth = bool(next(iter(cv))[1]) != neg_
                        d = edges_state(T=(new_env, orig, cur) if truth else None, F=(new_env, orig, cur) if not truth else None)
                        d[None] = (new_env, orig, cur)
                        d["exc"] = (new_env, orig, cur)
                        return d
            if isinstance(st, (ast.If, ast.While)) and flag:
                outs = {}
                for lbl, want in (("T", True), ("F", False)):
                    if cur == "orig":
                        keep = frozenset(v for v in orig if tri(st.test, flag, v, hook) in (want, None))
                        outs[lbl] = (new_env, keep, cur) if keep else None
                    else:
                        feas = any(tri(st.test, flag, v, hook) in (want, None) for v in cur)
                        keepc = frozenset(v for v in cur if tri(st.test, flag, v, hook) in (want, None))
                        outs[lbl] = (new_env, orig, keepc) if feas else None
                d = edges_state(T=outs["T"], F=outs["F"])
                d[None] = (new_env, orig, cur)
                d["exc"] = (new_env, orig, cur)
                return d
            return (new_env, orig, cur)

        def join(a, b):
            ea, eb = dict(a[0]), dict(b[0])
            env = {}
            for k in set(ea) | set(eb):
                env[k] = ea.get(k, frozenset()) | eb.get(k, frozenset())
            cur = a[2] if a[2] == b[2] else (
                frozenset([True, False]) if "orig" in (a[2], b[2]) else frozenset(a[2] | b[2]))
            return (frozenset(env.items()), a[1] | b[1], cur)

        if not disjunctive:
            cfg.forward(init, transfer, join)
            return {"writes": writes, "returns": returns, "cfg": cfg}

        def transfer_set(n, states):
            out = {"__edges__": True}
            acc = {}
            for s_ in states:
                r = transfer(n, s_)
                if isinstance(r, dict) and "__edges__" in r:
                    for lbl in ("T", "F", None, "exc"):
                        v = r.get(lbl, r.get(None)) if lbl in r or None in r else None
                        if lbl in r:
                            v = r[lbl]
                        if v is not None:
                            acc.setdefault(lbl, set()).add(v)
                else:
                    for lbl in ("T", "F", None, "exc"):
                        acc.setdefault(lbl, set()).add(r)
            for lbl, vs in acc.items():
                out[lbl] = frozenset(vs)
            for lbl in ("T", "F", None, "exc"):
                out.setdefault(lbl, None)
            return out

        def join_set(a, b):
            u = a | b
            if len(u) > 48:
                it = iter(u)
                m = next(it)
                for x in it:
                    m = join(m, x)
                return frozenset([m])
            return u

        cfg.forward(frozenset([init]), transfer_set, join_set)
        return {"writes": writes, "returns": returns, "cfg": cfg}

    def _assign(self, f, t, val, env, n, st, flags_now, record, value_node):
        if isinstance(t, ast.Name):
            env[t.id] = val
        elif isinstance(t, (ast.Tuple, ast.List)):
            for e in t.elts:
                self._assign(f, e, val, env, n, st, flags_now, record, value_node)
        elif isinstance(t, ast.Starred):
            self._assign(f, t.value, val, env, n, st, flags_now, record, value_node)
        elif isinstance(t, ast.Subscript):
            record(n, st, self.roots(f, t.value, env), flags_now, "item assignment")
        elif isinstance(t, ast.Attribute):
            if isinstance(t.value, ast.Name) and f.cls is not None and f.params and t.value.id == f.params[0]:
                env["self." + t.attr] = val
            else:
                record(n, st, self.roots(f, t.value, env), flags_now, "attribute assignment")


_DESUGARED = {}


def _desugar_ifexp(fnode):
    """``x = a if c else b`` / ``return a if c else b`` as If statements (copy of the function; the analysis is then
    flag-sensitive on them exactly as on the statement form)"""
    if id(fnode) in _DESUGARED and _DESUGARED[id(fnode)][0] is fnode:
        return _DESUGARED[id(fnode)][1]
    if not any(isinstance(x, ast.IfExp) for x in ast.walk(fnode)):
        _DESUGARED[id(fnode)] = (fnode, fnode)
        return fnode
    import copy

    class T(ast.NodeTransformer):
        def visit_Assign(self, n):
            if isinstance(n.value, ast.IfExp):
                a, b = copy.copy(n), copy.copy(n)
                a.value, b.value = n.value.body, n.value.orelse
                r = ast.If(test=n.value.test, body=[self.visit(a)], orelse=[self.visit(b)])
                return ast.copy_location(r, n)
            return n

        def visit_Return(self, n):
            if isinstance(n.value, ast.IfExp):
                a, b = copy.copy(n), copy.copy(n)
                a.value, b.value = n.value.body, n.value.orelse
                r = ast.If(test=n.value.test, body=[self.visit(a)], orelse=[self.visit(b)])
                return ast.copy_location(r, n)
            return n

        def visit_FunctionDef(self, n):
            if n is not new:
                return n
            self.generic_visit(n)
            return n

        visit_Lambda = lambda self, n: n

    new = copy.deepcopy(fnode)
    new = T().visit(new)
    ast.fix_missing_locations(new)
    _DESUGARED[id(fnode)] = (fnode, new)
    return new


def _names(t):
    if isinstance(t, ast.Name):
        yield t.id
    elif isinstance(t, (ast.Tuple, ast.List)):
        for e in t.elts:
            yield from _names(e)
    elif isinstance(t, ast.Starred):
        yield from _names(t.value)


def check_result_fresh(ctx, R, f, flag="in_place"):
    """with the flag false the value returned must not share memory with the array passed in: a view of the caller's array
    as result means a later in-place step on the result (the next post-processor, the caller) overwrites the caller's data"""
    eff = Effects(ctx.prog, flag=flag)
    param = f.params[1]
    try:
        roots = eff.result_roots(f, False)
    except Exception as e:
        ctx.error(R, "cannot decide what the result of %s may alias: %r" % (f.short, e))
        return
    what = "with %s=False the result of %s is a new array, never a view of the input" % (flag, f.short)
    if ("param", param) in roots:
        ctx.bad(R, f, f.node, "with %s=False some path of %s returns a view of (or the very array) `%s` it was given: the result shares memory with the caller's "
                "data although no in-place operation was asked for" % (flag, f.short, param), what, robust=True)
    else:
        ctx.ok(R, f.loc(), what, "result may alias: %s" % sorted(str(r[0]) for r in roots))
