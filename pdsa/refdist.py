"""Distance of the analysed tree from the reference tree, per module.

The rules of this framework were built on, and calibrated against, the pinned (and repaired) source: their clauses
name constructs of that source (after alpha- and shape-normalisation).  They follow edits of the size of a bug fix or
a feature patch; a module that has been re-written wholesale (helpers extracted, control flow re-structured, classes
introduced) is outside what they can follow, and a clause that fails there says "the idiom is gone", not "the property
is broken".  This module measures how far each module is from the reference so that the report can tell the two apart:

    distance(module) = size of the symmetric multiset difference between the normalised statements of the analysed
                       module and those recorded for the reference tree (pdsa/ref_stmts.json).

Statements are compared after the model's normalisations (renamed locals get their reference names back, ``if not c``
is flipped, ordering comparisons are canonical), without docstrings.  ``python -m pdsa.refdist`` rewrites the reference
table from /repo (run only when /repo itself is changed by a fix commit)."""

import ast
import collections
import hashlib
import json
import os

PATH = os.path.join(os.path.dirname(os.path.abspath(__file__)), "ref_stmts.json")

# findings in modules further than this from the reference are reported as "cannot decide" (exit 2).  Calibration
# (tools/clause_corpus.py): the 160 confirmed breaking changes are at most 35 statements from the reference
# (median 5); the wholesale refactorings of the preserving corpus start at 50.
LIMIT = int(os.environ.get("PDSA_LIMIT", "40"))


def _key(node):
    if isinstance(node, (ast.FunctionDef, ast.AsyncFunctionDef)):
        return "def %s(%s)" % (node.name, ast.unparse(node.args))
    if isinstance(node, ast.ClassDef):
        return "class %s(%s)" % (node.name, ",".join(ast.unparse(b) for b in node.bases))
    if isinstance(node, ast.If):
        return "if " + ast.unparse(node.test)
    if isinstance(node, ast.While):
        return "while " + ast.unparse(node.test)
    if isinstance(node, (ast.For, ast.AsyncFor)):
        return "for %s in %s" % (ast.unparse(node.target), ast.unparse(node.iter))
    if isinstance(node, (ast.With, ast.AsyncWith)):
        return "with " + ", ".join(ast.unparse(i) for i in node.items)
    if isinstance(node, ast.Try):
        return "try/" + ",".join(ast.unparse(h.type) if h.type is not None else "*" for h in node.handlers)
    return ast.unparse(node)


def statements(tree):
    out = collections.Counter()

    def body(stmts, first_may_be_doc):
        for i, s in enumerate(stmts):
            if (i == 0 and first_may_be_doc and isinstance(s, ast.Expr) and isinstance(s.value, ast.Constant)
                    and isinstance(s.value.value, str)):
                continue
            if isinstance(s, ast.Pass):
                continue
            k = _key(s)
            out[hashlib.sha1(k.encode()).hexdigest()[:12]] += 1
            for fld in ("body", "orelse", "finalbody"):
                sub = getattr(s, fld, None)
                if isinstance(sub, list) and sub and isinstance(sub[0], ast.stmt):
                    body(sub, fld == "body" and isinstance(s, (ast.FunctionDef, ast.AsyncFunctionDef, ast.ClassDef)))
            for h in getattr(s, "handlers", []) or []:
                body(h.body, False)

    body(tree.body, True)
    return out


_REF = None


def reference():
    global _REF
    if _REF is None:
        try:
            with open(PATH) as fh:
                _REF = {m: collections.Counter(d) for m, d in json.load(fh).items()}
        except (OSError, ValueError):
            _REF = {}
    return _REF


def distances(prog):
    """module rel path -> number of statements that differ from the reference (None when there is no reference)"""
    cached = getattr(prog, "_refdist", None)
    if cached is not None:
        return cached
    ref = reference()
    out = {}
    for mi in prog.modules.values():
        r = ref.get(mi.rel)
        if r is None:
            out[mi.rel] = None
            continue
        cur = statements(mi.tree)
        d = sum(((cur - r) + (r - cur)).values())
        pre = getattr(mi, "stmts_before_unextraction", None)
        if pre is not None:
            # helpers spliced back into their callers (alpha.inline_new_helpers) may bring the module closer to the reference
            # or, through fresh names, further from it: the smaller of the two distances counts
            d = min(d, sum(((pre - r) + (r - pre)).values()))
        out[mi.rel] = d
    try:
        prog._refdist = out
    except AttributeError:
        pass
    return out


if __name__ == "__main__":
    from .model import Program
    prog = Program()
    table = {mi.rel: dict(statements(mi.tree)) for mi in prog.modules.values()}
    with open(PATH, "w") as fh:
        json.dump(table, fh, indent=0, sort_keys=True)
    print("ref_stmts.json: %d modules, %d statements" % (len(table), sum(sum(d.values()) for d in table.values())))
