#!/usr/bin/env python3
"""Run all 20 checks on every behaviour-preserving variant under /verif/benign/<name>/patch.diff (and optionally the
single-edit sweeps) and report every finding: on such code a finding is a false alarm by construction.
Usage: benign_corpus.py [--write-structural]   (the table pdsa/structural.json demotes the clauses seen to fire)"""
import sys, os, json, glob, shutil, subprocess, tempfile, importlib
sys.path.insert(0, '/verif')
from concurrent.futures import ProcessPoolExecutor
PROPS = ['C%02d' % i for i in range(1, 21)]


def job(path):
    from pdsa.model import Program
    from pdsa import report
    d = tempfile.mkdtemp(prefix='bc-', dir='/dev/shm')
    try:
        os.makedirs(d + '/src/pydrobert'); shutil.copytree('/repo/src/pydrobert/speech', d + '/src/pydrobert/speech')
        r = subprocess.run(['patch', '-p1', '-s', '--no-backup-if-mismatch'], cwd=d, stdin=open(path, 'rb'), stdout=subprocess.PIPE, stderr=subprocess.STDOUT)
        if r.returncode != 0:
            return (path, 'patch failed', [], [])
        if '--applied' not in sys.argv:
            os.environ['PDSA_NO_STRUCTURAL'] = '1'
        prog = Program(d)
        fnd, err = [], []
        for p in PROPS:
            ctx = report.Ctx(p, 'quick', prog, 0)
            mod = importlib.import_module('pdsa.rules.%s' % p.lower())
            try:
                mod.run(ctx)
            except Exception as e:
                ctx.error('analysis', repr(e))
            ctx.postprocess()
            for f in ctx.findings:
                fnd.append((p, f.rule, getattr(f, 'clause', ''), f.func, f.message[:200]))
            for e in ctx.errors:
                err.append((p, e['rule'], e['message'][:160]))
        return (path, 'ok', fnd, err)
    finally:
        shutil.rmtree(d, ignore_errors=True)


if __name__ == '__main__':
    paths = sorted(glob.glob('/verif/benign/*/patch.diff'))
    with ProcessPoolExecutor(8) as ex:
        results = list(ex.map(job, paths))
    table = set()
    nf = 0
    for path, st, fnd, err in results:
        name = os.path.basename(os.path.dirname(path))
        print('%-22s %s  false alarms: %d  errors: %d' % (name, st, len(fnd), len(err)))
        for p, rule, clause, func, msg in fnd:
            nf += 1
            table.add((rule, clause))
            if '-v' in sys.argv:
                print('      %s %s :: %s -- %s' % (rule, func, clause[:60], msg[:140]))
    print('variants:', len(results), ' with false alarms:', sum(1 for r in results if r[2]), ' total false findings:', nf, ' distinct clauses:', len(table))
    if '--write-structural' in sys.argv:
        ap = '/verif/pdsa/structural.json'
        old = set(tuple(x) for x in json.load(open(ap))) if os.path.exists(ap) else set()
        json.dump(sorted(old | table), open(ap, 'w'), indent=0)
        print('structural.json:', len(old | table), 'clauses')
