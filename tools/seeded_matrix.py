#!/usr/bin/env python3
"""All 20 checks against every stored change of a wave (or all): rewrites detected_by / detected_by_all / undecided in the
meta files and prints the DESIGN table rows.  usage: tools/seeded_matrix.py [wave]"""
import sys, os, json, glob, shutil, subprocess, tempfile, importlib
sys.path.insert(0,'/verif')
from concurrent.futures import ProcessPoolExecutor
def job(d):
    from pdsa.model import Program
    from pdsa import report
    meta=json.load(open(d+'/meta.json')); P=meta['property']
    t=tempfile.mkdtemp(prefix='w4-',dir='/dev/shm')
    try:
        os.makedirs(t+'/src/pydrobert'); shutil.copytree('/repo/src/pydrobert/speech', t+'/src/pydrobert/speech')
        subprocess.run(['patch','-p1','-s','-f'],cwd=t,stdin=open(d+'/patch.diff','rb'),stdout=subprocess.PIPE,stderr=subprocess.STDOUT)
        prog=Program(t); out={}
        for p in ['C%02d'%i for i in range(1,21)]:
            ctx=report.Ctx(p,'quick',prog,0)
            try: importlib.import_module('pdsa.rules.%s'%p.lower()).run(ctx)
            except Exception as e: ctx.error('analysis',repr(e))
            ctx.postprocess()
            out[p]=(sorted({f.rule for f in ctx.findings}), [e['message'][:200] for e in ctx.errors][:2])
        return (d,P,out)
    finally: shutil.rmtree(t,ignore_errors=True)
WAVE=int(sys.argv[1]) if len(sys.argv)>1 else None
ds=[d for d in sorted(glob.glob('/verif/seeded/C*-*')) if WAVE is None or json.load(open(d+'/meta.json')).get('wave')==WAVE]
with ProcessPoolExecutor(10) as ex: res=list(ex.map(job,ds))
rows=[]
for d,P,out in res:
    m=json.load(open(d+'/meta.json'))
    own=out[P]
    m['detected_by_all']={p:v[0] for p,v in out.items() if v[0]}
    if own[0]:
        m['detected_by']={P: own[0][0]}; m.pop('undecided',None)
    else:
        m['detected_by']={}
        m['undecided']={'property':P,'reason':(own[1][0] if own[1] else 'no rule fired')}
    json.dump(m,open(d+'/meta.json','w'),indent=1)
    rows.append((os.path.basename(d), m.get('kind','?'), own[0], m.get('undecided',{}).get('reason','')[:90], {p:v for p,v in m['detected_by_all'].items() if p!=P}))
json.dump(rows, open('/dev/shm/rows.json','w'))
for r in rows:
    print('| %s | %s | %s | %s |' % (r[0], r[1], ', '.join(r[2]) if r[2] else ('**not detected by its own check**' if r[3].startswith('no rule fired') else '**undecided (exit 2)**: '+r[3]), ', '.join('%s: %s'%(p,','.join(v)) for p,v in sorted(r[4].items()))))
print(sum(1 for r in rows if r[2]), 'of', len(rows))
