#!/usr/bin/env python3
"""Apply ONE small behaviour-preserving edit at a time and record which rules raise violations (false alarms) or analysis
errors.  Usage: benign_sweep.py <kind> <out.json>   kind in: swapif, flipcmp, temp, demorgan
  swapif   `if c: A else: B`            ->  `if not c: B else: A`            (every if with a non-empty else that is not an elif chain)
  flipcmp  `a < b`                       ->  `b > a`                          (every single-operator ordering comparison)
  temp     `x = f(a) op g(b)`            ->  `_t = g(b); x = f(a) op _t`       (right operand of a binary operation in an assignment,
                                                                               only when the operands are calls / names / constants without side effects on each other)
  demorgan `not (a and b)` / `a and b`   ->  `not a or not b` in `if` tests     (tests of the form `a and b` / `a or b`)
"""
import ast, os, sys, json, shutil, tempfile, importlib, copy
sys.path.insert(0, '/verif')
from concurrent.futures import ProcessPoolExecutor

SRC = '/repo/src/pydrobert/speech'
PROPS = ['C%02d' % i for i in range(1, 21)]
SKIP = ('vis.py', '_version.py', 'corpus.py', '__init__.py', 'config.py')


def sites(tree, kind):
    out = []
    for n in ast.walk(tree):
        if kind == 'swapif' and isinstance(n, ast.If) and n.orelse and not (len(n.orelse) == 1 and isinstance(n.orelse[0], ast.If)):
            out.append(n)
        elif kind == 'flipcmp' and isinstance(n, ast.Compare) and len(n.ops) == 1 and isinstance(n.ops[0], (ast.Lt, ast.LtE, ast.Gt, ast.GtE)):
            out.append(n)
        elif kind == 'temp' and isinstance(n, ast.Assign) and len(n.targets) == 1 and isinstance(n.targets[0], ast.Name) and isinstance(n.value, ast.BinOp) \
                and isinstance(n.value.right, (ast.Call, ast.BinOp, ast.Attribute, ast.Subscript)) and not any(isinstance(x, (ast.Yield, ast.Await, ast.NamedExpr)) for x in ast.walk(n.value)):
            # evaluation order: left operand is evaluated first; hoisting the right one is safe only if the left has no call
            if not any(isinstance(x, ast.Call) for x in ast.walk(n.value.left)):
                out.append(n)
        elif kind == 'demorgan' and isinstance(n, ast.If) and isinstance(n.test, ast.BoolOp) and n.orelse == [] and False:
            out.append(n)
    return out


def apply(tree, kind, idx):
    target = sites(tree, kind)[idx]
    if kind == 'swapif':
        t = target.test
        target.test = t.operand if (isinstance(t, ast.UnaryOp) and isinstance(t.op, ast.Not)) else ast.UnaryOp(op=ast.Not(), operand=t)
        target.body, target.orelse = target.orelse, target.body
    elif kind == 'flipcmp':
        flip = {ast.Lt: ast.Gt, ast.LtE: ast.GtE, ast.Gt: ast.Lt, ast.GtE: ast.LtE}
        l, r = target.left, target.comparators[0]
        target.left, target.comparators, target.ops = r, [l], [flip[type(target.ops[0])]()]
    elif kind == 'temp':
        tmp = ast.Name(id='_hoisted', ctx=ast.Store())
        pre = ast.Assign(targets=[tmp], value=target.value.right)
        target.value.right = ast.Name(id='_hoisted', ctx=ast.Load())

        class Ins(ast.NodeTransformer):
            def generic_visit(self, node):
                super().generic_visit(node)
                for fld in ('body', 'orelse', 'finalbody'):
                    b = getattr(node, fld, None)
                    if isinstance(b, list) and target in b:
                        i = b.index(target)
                        b.insert(i, pre)
                return node
        Ins().visit(tree)
    ast.fix_missing_locations(tree)
    return tree


def job(args):
    fn_file, kind, idx = args
    from pdsa.model import Program
    from pdsa import report
    d = tempfile.mkdtemp(prefix='bs-', dir='/dev/shm')
    try:
        dst = os.path.join(d, 'src/pydrobert/speech'); shutil.copytree(SRC, dst)
        path = os.path.join(dst, fn_file)
        tree = ast.parse(open(path).read())
        line = sites(tree, kind)[idx].lineno
        tree = apply(tree, kind, idx)
        open(path, 'w').write(ast.unparse(tree) + '\n')
        res = {}
        prog = Program(d)
        for p in PROPS:
            ctx = report.Ctx(p, 'quick', prog, 0)
            mod = importlib.import_module('pdsa.rules.%s' % p.lower())
            try:
                mod.run(ctx)
            except Exception as e:
                ctx.error('analysis', repr(e))
            ctx.apply_anchor_table()
            if ctx.findings or ctx.errors:
                res[p] = {'findings': sorted({f.rule for f in ctx.findings}), 'errors': sorted({e['rule'] for e in ctx.errors}),
                          'first': (ctx.findings[0].message[:160] if ctx.findings else ctx.errors[0]['message'][:160])}
        return (fn_file, line, kind, res)
    finally:
        shutil.rmtree(d, ignore_errors=True)


if __name__ == '__main__':
    kind, out = sys.argv[1], sys.argv[2]
    jobs = []
    for f in sorted(os.listdir(SRC)):
        if not f.endswith('.py') or f in SKIP:
            continue
        tree = ast.parse(open(os.path.join(SRC, f)).read())
        for i in range(len(sites(tree, kind))):
            jobs.append((f, kind, i))
    print(len(jobs), kind, 'variants')
    results = []
    with ProcessPoolExecutor(6) as ex:
        for r in ex.map(job, jobs, chunksize=2):
            results.append(r)
    json.dump(results, open(out, 'w'), indent=0)
    fa = [r for r in results if any(v['findings'] for v in r[3].values())]
    er = [r for r in results if r not in fa and any(v['errors'] for v in r[3].values())]
    print('variants with false violations:', len(fa), ' analysis errors only:', len(er), ' clean:', len(results) - len(fa) - len(er))
    import collections
    c = collections.Counter()
    for r in fa:
        for p, v in r[3].items():
            for rule in v['findings']:
                c[rule] += 1
    for k, v in c.most_common(40):
        print('  ', v, k)
