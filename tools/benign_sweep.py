#!/usr/bin/env python3
"""Apply ONE small behaviour-preserving edit at a time and record which rules raise violations (false alarms) or analysis
errors.  Usage: benign_sweep.py <kind> <out.json>   kind in: swapif, flipcmp, temp, demorgan, commute, tmpret, negcmp, ifexp2stmt, stmt2ifexp, dropelse, nestand
  swapif   `if c: A else: B`            ->  `if not c: B else: A`            (every if with a non-empty else that is not an elif chain)
  flipcmp  `a < b`                       ->  `b > a`                          (every single-operator ordering comparison)
  temp     `x = f(a) op g(b)`            ->  `_t = g(b); x = f(a) op _t`       (right operand of a binary operation in an assignment,
                                                                               only when the operands are calls / names / constants without side effects on each other)
  demorgan `not (a and b)` / `a and b`   ->  `not a or not b` in `if` tests     (tests of the form `a and b` / `a or b`)
"""
import ast, os, sys, json, shutil, tempfile, importlib, copy
sys.path.insert(0, '/verif')
os.environ['PDSA_NO_STRUCTURAL'] = '1'
from concurrent.futures import ProcessPoolExecutor

SRC = '/repo/src/pydrobert/speech'
PROPS = ['C%02d' % i for i in range(1, 21)]
SKIP = ('vis.py', '_version.py', 'corpus.py', '__init__.py', 'config.py')


def sites(tree, kind):
    out = []
    for n in ast.walk(tree):
        if kind == 'swapif' and isinstance(n, ast.If) and n.orelse and not (len(n.orelse) == 1 and isinstance(n.orelse[0], ast.If)):
            out.append(n)
        elif kind == 'flipcmp' and isinstance(n, ast.Compare) and len(n.ops) == 1 and isinstance(n.ops[0], (ast.Lt, ast.LtE, ast.Gt, ast.GtE)):
            out.append(n)
        elif kind == 'temp' and isinstance(n, ast.Assign) and len(n.targets) == 1 and isinstance(n.targets[0], ast.Name) and isinstance(n.value, ast.BinOp) \
                and isinstance(n.value.right, (ast.Call, ast.BinOp, ast.Attribute, ast.Subscript)) and not any(isinstance(x, (ast.Yield, ast.Await, ast.NamedExpr)) for x in ast.walk(n.value)):
            # evaluation order: left operand is evaluated first; hoisting the right one is safe only if the left has no call
            if not any(isinstance(x, ast.Call) for x in ast.walk(n.value.left)):
                out.append(n)
        elif kind == 'demorgan' and isinstance(n, (ast.If, ast.While, ast.IfExp)) and isinstance(n.test, ast.BoolOp):
            out.append(n)
        elif kind == 'commute' and isinstance(n, ast.BinOp) and isinstance(n.op, (ast.Add, ast.Mult)) and _numeric(n) and _pure(n.left) and _pure(n.right):
            out.append(n)
        elif kind == 'tmpret' and isinstance(n, ast.Return) and n.value is not None and not isinstance(n.value, (ast.Name, ast.Constant)):
            out.append(n)
        elif kind == 'negcmp' and isinstance(n, (ast.If, ast.While, ast.IfExp, ast.Assert)) and isinstance(n.test, ast.Compare) and len(n.test.ops) == 1 \
                and isinstance(n.test.ops[0], (ast.NotEq, ast.IsNot, ast.NotIn)):
            out.append(n)
        elif kind == 'ifexp2stmt' and isinstance(n, ast.Assign) and isinstance(n.value, ast.IfExp) and len(n.targets) == 1 and isinstance(n.targets[0], ast.Name):
            out.append(n)
        elif kind == 'stmt2ifexp' and isinstance(n, ast.If) and len(n.body) == 1 and len(n.orelse) == 1 and all(
                isinstance(b, ast.Assign) and len(b.targets) == 1 and isinstance(b.targets[0], ast.Name) for b in (n.body[0], n.orelse[0])) \
                and n.body[0].targets[0].id == n.orelse[0].targets[0].id:
            out.append(n)
        elif kind == 'dropelse' and isinstance(n, ast.If) and n.orelse and isinstance(n.body[-1], (ast.Return, ast.Raise, ast.Continue, ast.Break)):
            out.append(n)
        elif kind == 'nestand' and isinstance(n, ast.If) and not n.orelse and isinstance(n.test, ast.BoolOp) and isinstance(n.test.op, ast.And):
            out.append(n)
    return out


_PURE_CALLS = {'len', 'int', 'float', 'max', 'min', 'abs'}


def _pure(e):
    for x in ast.walk(e):
        if isinstance(x, ast.Call):
            f = x.func
            nm = f.id if isinstance(f, ast.Name) else (f.attr if isinstance(f, ast.Attribute) else None)
            base_np = isinstance(f, ast.Attribute) and isinstance(f.value, ast.Name) and f.value.id in ('np', 'math')
            if not (nm in _PURE_CALLS or base_np):
                return False
        if isinstance(x, (ast.Yield, ast.Await, ast.NamedExpr)):
            return False
    return True


def _numeric(n):
    """the + or * is certainly arithmetic: no sequence / string operand in sight and one side is visibly a number"""
    for side in (n.left, n.right):
        for x in ast.walk(side):
            if isinstance(x, (ast.List, ast.Tuple, ast.ListComp, ast.JoinedStr, ast.Dict, ast.Set)) or (isinstance(x, ast.Constant) and isinstance(x.value, (str, bytes))):
                return False
    def num(e):
        return (isinstance(e, ast.Constant) and isinstance(e.value, (int, float)) and not isinstance(e.value, bool)) or (
            isinstance(e, ast.BinOp) and isinstance(e.op, (ast.Mult, ast.Div, ast.FloorDiv, ast.Pow, ast.Mod, ast.Sub)))
    return num(n.left) or num(n.right)


def apply(tree, kind, idx):
    target = sites(tree, kind)[idx]
    if kind == 'swapif':
        t = target.test
        target.test = t.operand if (isinstance(t, ast.UnaryOp) and isinstance(t.op, ast.Not)) else ast.UnaryOp(op=ast.Not(), operand=t)
        target.body, target.orelse = target.orelse, target.body
    elif kind == 'flipcmp':
        flip = {ast.Lt: ast.Gt, ast.LtE: ast.GtE, ast.Gt: ast.Lt, ast.GtE: ast.LtE}
        l, r = target.left, target.comparators[0]
        target.left, target.comparators, target.ops = r, [l], [flip[type(target.ops[0])]()]
    elif kind == 'temp':
        tmp = ast.Name(id='_hoisted', ctx=ast.Store())
        pre = ast.Assign(targets=[tmp], value=target.value.right)
        target.value.right = ast.Name(id='_hoisted', ctx=ast.Load())

        class Ins(ast.NodeTransformer):
            def generic_visit(self, node):
                super().generic_visit(node)
                for fld in ('body', 'orelse', 'finalbody'):
                    b = getattr(node, fld, None)
                    if isinstance(b, list) and target in b:
                        i = b.index(target)
                        b.insert(i, pre)
                return node
        Ins().visit(tree)
    elif kind == 'demorgan':
        t = target.test
        inv = ast.BoolOp(op=ast.Or() if isinstance(t.op, ast.And) else ast.And(), values=[ast.UnaryOp(op=ast.Not(), operand=v) for v in t.values])
        target.test = ast.UnaryOp(op=ast.Not(), operand=inv)
    elif kind == 'commute':
        target.left, target.right = target.right, target.left
    elif kind == 'negcmp':
        t = target.test
        pos = {ast.NotEq: ast.Eq, ast.IsNot: ast.Is, ast.NotIn: ast.In}[type(t.ops[0])]()
        target.test = ast.UnaryOp(op=ast.Not(), operand=ast.Compare(left=t.left, ops=[pos], comparators=t.comparators))
    elif kind in ('tmpret', 'ifexp2stmt', 'stmt2ifexp', 'dropelse', 'nestand'):
        def repl(old):
            if kind == 'tmpret':
                return [ast.Assign(targets=[ast.Name(id='_result', ctx=ast.Store())], value=old.value), ast.Return(value=ast.Name(id='_result', ctx=ast.Load()))]
            if kind == 'ifexp2stmt':
                a, b = copy.copy(old), copy.copy(old)
                a.value, b.value = old.value.body, old.value.orelse
                return [ast.If(test=old.value.test, body=[a], orelse=[b])]
            if kind == 'stmt2ifexp':
                return [ast.Assign(targets=old.body[0].targets, value=ast.IfExp(test=old.test, body=old.body[0].value, orelse=old.orelse[0].value))]
            if kind == 'dropelse':
                tail = old.orelse
                old.orelse = []
                return [old] + tail
            if kind == 'nestand':
                inner = ast.If(test=old.test.values[-1], body=old.body, orelse=[])
                rest = old.test.values[:-1]
                old.test = rest[0] if len(rest) == 1 else ast.BoolOp(op=ast.And(), values=rest)
                old.body = [inner]
                return [old]

        class Rep(ast.NodeTransformer):
            def generic_visit(self, node):
                super().generic_visit(node)
                for fld in ('body', 'orelse', 'finalbody'):
                    b = getattr(node, fld, None)
                    if isinstance(b, list) and any(x is target for x in b):
                        i = [k for k, x in enumerate(b) if x is target][0]
                        b[i:i + 1] = repl(target)
                return node
        Rep().visit(tree)
    ast.fix_missing_locations(tree)
    return tree


def job(args):
    fn_file, kind, idx = args
    from pdsa.model import Program
    from pdsa import report
    d = tempfile.mkdtemp(prefix='bs-', dir='/dev/shm')
    try:
        dst = os.path.join(d, 'src/pydrobert/speech'); shutil.copytree(SRC, dst)
        path = os.path.join(dst, fn_file)
        tree = ast.parse(open(path).read())
        line = sites(tree, kind)[idx].lineno
        tree = apply(tree, kind, idx)
        open(path, 'w').write(ast.unparse(tree) + '\n')
        res = {}
        prog = Program(d)
        for p in PROPS:
            ctx = report.Ctx(p, 'quick', prog, 0)
            mod = importlib.import_module('pdsa.rules.%s' % p.lower())
            try:
                mod.run(ctx)
            except Exception as e:
                ctx.error('analysis', repr(e))
            ctx.postprocess()
            if ctx.findings or ctx.errors:
                res[p] = {'findings': sorted({f.rule for f in ctx.findings}), 'errors': sorted({e['rule'] for e in ctx.errors}),
                          'clauses': sorted({(f.rule, f.clause) for f in ctx.findings}),
                          'first': (ctx.findings[0].message[:160] if ctx.findings else ctx.errors[0]['message'][:160])}
        return (fn_file, line, kind, res)
    finally:
        shutil.rmtree(d, ignore_errors=True)


if __name__ == '__main__':
    kind, out = sys.argv[1], sys.argv[2]
    jobs = []
    for f in sorted(os.listdir(SRC)):
        if not f.endswith('.py') or f in SKIP:
            continue
        tree = ast.parse(open(os.path.join(SRC, f)).read())
        for i in range(len(sites(tree, kind))):
            jobs.append((f, kind, i))
    print(len(jobs), kind, 'variants')
    results = []
    with ProcessPoolExecutor(14) as ex:
        for r in ex.map(job, jobs, chunksize=2):
            results.append(r)
    json.dump(results, open(out, 'w'), indent=0)
    fa = [r for r in results if any(v['findings'] for v in r[3].values())]
    er = [r for r in results if r not in fa and any(v['errors'] for v in r[3].values())]
    print('variants with false violations:', len(fa), ' analysis errors only:', len(er), ' clean:', len(results) - len(fa) - len(er))
    import collections
    c = collections.Counter()
    for r in fa:
        for p, v in r[3].items():
            for rule in v['findings']:
                c[rule] += 1
    for k, v in c.most_common(40):
        print('  ', v, k)
