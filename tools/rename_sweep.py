#!/usr/bin/env python3
"""Rename ONE local variable of ONE function at a time (behaviour-preserving) and record which
rules raise violations (false alarms) or analysis errors.  Usage: rename_sweep.py <out.json> [modules...]"""
import ast, os, sys, json, shutil, subprocess, tempfile, importlib
sys.path.insert(0, '/verif')
from pdsa.model import Program
from pdsa import report
from concurrent.futures import ProcessPoolExecutor

SRC = '/repo/src/pydrobert/speech'
PROPS = ['C%02d' % i for i in range(1, 21)]
VALIDATE = '--validate' in sys.argv

def locals_of(fn):
    params = {a.arg for a in fn.args.posonlyargs + fn.args.args + fn.args.kwonlyargs}
    if fn.args.vararg: params.add(fn.args.vararg.arg)
    if fn.args.kwarg: params.add(fn.args.kwarg.arg)
    out = set()
    def walk(n):
        for c in ast.iter_child_nodes(n):
            if isinstance(c, (ast.FunctionDef, ast.AsyncFunctionDef, ast.ClassDef, ast.Lambda)):
                continue
            if isinstance(c, ast.Name) and isinstance(c.ctx, ast.Store):
                out.add(c.id)
            walk(c)
    walk(fn)
    return sorted(out - params)

class One(ast.NodeTransformer):
    def __init__(self, target_fn, name):
        self.t, self.name, self.inside = target_fn, name, 0
    def visit_FunctionDef(self, node):
        if node is self.t:
            self.inside += 1
            node = self.generic_visit(node)
            self.inside -= 1
            return node
        return self.generic_visit(node) if self.inside else self.generic_visit(node)
    def visit_Name(self, node):
        if self.inside and node.id == self.name:
            return ast.copy_location(ast.Name(id=node.id + '_rn', ctx=node.ctx), node)
        return node

def job(args):
    fn_file, lineno, name, qual = args
    d = tempfile.mkdtemp(prefix='rs-', dir='/dev/shm')
    try:
        dst = os.path.join(d, 'src/pydrobert/speech'); shutil.copytree(SRC, dst)
        path = os.path.join(dst, fn_file)
        tree = ast.parse(open(path).read())
        target = [n for n in ast.walk(tree) if isinstance(n, ast.FunctionDef) and n.lineno == lineno][0]
        tree = One(target, name).visit(tree); ast.fix_missing_locations(tree)
        open(path, 'w').write(ast.unparse(tree) + '\n')
        res = {}
        prog = Program(d)
        for p in PROPS:
            ctx = report.Ctx(p, 'quick', prog, 0)
            mod = importlib.import_module('pdsa.rules.%s' % p.lower())
            try:
                mod.run(ctx)
            except Exception as e:
                ctx.error('analysis', repr(e))
            if VALIDATE:
                ctx.apply_anchor_table()
            if ctx.findings or ctx.errors:
                res[p] = {'findings': sorted({f.rule for f in ctx.findings}), 'clauses': sorted({(f.rule, getattr(f, 'clause', '')) for f in ctx.findings}), 'errors': len(ctx.errors)}
        return (fn_file, qual, lineno, name, res)
    finally:
        shutil.rmtree(d, ignore_errors=True)

if __name__ == '__main__':
    out = sys.argv[1]
    mods = [a for a in sys.argv[2:] if not a.startswith('--')] or [f for f in sorted(os.listdir(SRC)) if f.endswith('.py') and f not in ('vis.py', '_version.py', 'corpus.py')]
    jobs = []
    prog0 = Program('/repo')
    qn = {(os.path.basename(fi.module.rel), fi.node.lineno): fi.qualname for fi in prog0.functions.values()}
    for f in mods:
        tree = ast.parse(open(os.path.join(SRC, f)).read())
        for n in ast.walk(tree):
            if isinstance(n, ast.FunctionDef):
                for nm in locals_of(n):
                    jobs.append((f, n.lineno, nm, qn.get((f, n.lineno), n.name)))
    print(len(jobs), 'single-variable renames')
    results = []
    with ProcessPoolExecutor(8) as ex:
        for r in ex.map(job, jobs, chunksize=4):
            results.append(r)
    json.dump(results, open(out, 'w'), indent=0)
    fa = [r for r in results if any(v['findings'] for v in r[4].values())]
    er = [r for r in results if any(v['errors'] for v in r[4].values()) and r not in fa]
    print('renames with false violations:', len(fa), ' with analysis errors only:', len(er), ' clean:', len(results) - len(fa) - len(er))
    if '--write-anchors' in sys.argv:
        table = {}
        old = {}
        ap = '/verif/pdsa/anchors.json'
        if os.path.exists(ap):
            old = json.load(open(ap))
        for k, v in old.items():
            table[k] = [tuple(x) for x in v if len(x) == 3]
        for fn_file, q, lineno, name, res in results:
            for p, r in res.items():
                for rule, clause in r.get('clauses', []):
                    table.setdefault(rule, [])
                    if (q, name, clause) not in table[rule]:
                        table[rule].append((q, name, clause))
        json.dump({k: sorted(v) for k, v in sorted(table.items())}, open(ap, 'w'), indent=1)
        print('anchors.json:', sum(len(v) for v in table.values()), 'anchor names for', len(table), 'rules')
