#!/usr/bin/env python3
"""tools/benign.py <mode> <outdir>: write a behaviour-preserving variant of /repo/src to <outdir>/src
modes: unparse  - every module re-emitted by ast.unparse (formatting, parentheses, comments gone)
       rename   - additionally every function-local variable renamed (suffix _r)"""
import ast, os, sys, shutil, builtins
mode, out = sys.argv[1], sys.argv[2]
src = '/repo/src/pydrobert/speech'
dst = os.path.join(out, 'src/pydrobert/speech')
os.makedirs(dst, exist_ok=True)

class Renamer(ast.NodeTransformer):
    def __init__(self):
        self.stack = []
    def visit_FunctionDef(self, node):
        params = {a.arg for a in node.args.posonlyargs + node.args.args + node.args.kwonlyargs}
        if node.args.vararg: params.add(node.args.vararg.arg)
        if node.args.kwarg: params.add(node.args.kwarg.arg)
        local = set()
        nonlocal_ = set()
        for n in ast.walk(node):
            if isinstance(n, (ast.Global, ast.Nonlocal)):
                nonlocal_.update(n.names)
        def collect(n, top):
            for c in ast.iter_child_nodes(n):
                if isinstance(c, (ast.FunctionDef, ast.AsyncFunctionDef, ast.ClassDef, ast.Lambda)):
                    if isinstance(c, (ast.FunctionDef, ast.ClassDef)):
                        pass
                    continue
                if isinstance(c, ast.Name) and isinstance(c.ctx, (ast.Store, ast.Del)):
                    local.add(c.id)
                collect(c, False)
        collect(node, True)
        # names used by nested functions (closures) must keep their names consistently: rename them too
        local -= params
        local -= nonlocal_
        local = {n for n in local if not n.startswith('__')}
        self.stack.append(local)
        node = self.generic_visit(node)
        self.stack.pop()
        return node
    visit_AsyncFunctionDef = visit_FunctionDef
    def visit_Name(self, node):
        for scope in reversed(self.stack):
            if node.id in scope:
                return ast.copy_location(ast.Name(id=node.id + '_r', ctx=node.ctx), node)
        return node

for fn in sorted(os.listdir(src)):
    if not fn.endswith('.py'):
        continue
    text = open(os.path.join(src, fn)).read()
    tree = ast.parse(text)
    if mode == 'rename' and fn not in ('_sphere.py',):
        tree = Renamer().visit(tree)
        ast.fix_missing_locations(tree)
    open(os.path.join(dst, fn), 'w').write(ast.unparse(tree) + '\n')
