#!/bin/sh
# tools/try_revert.sh <repo-commit> <PROP>...  -- analyse a scratch copy of /repo with that commit reverted
C=$1; shift
T=$(mktemp /dev/shm/rev.XXXXXX)
git -C /repo show "$C" -- src > "$T"
D=$(mktemp -d /dev/shm/pdsa.XXXXXX)
mkdir -p "$D/src/pydrobert" && cp -r /repo/src/pydrobert/speech "$D/src/pydrobert/speech"
( cd "$D" && patch -R -p1 -s < "$T" ) || { echo "revert failed"; rm -rf "$D" "$T"; exit 3; }
for PR in "$@"; do
  /verif/check "$PR" --repo "$D" | /venv/bin/python -c "
import json,sys
d=json.loads(sys.stdin.read())
print('$PR', 'obligations=%d findings=%d errors=%d' % (d['obligations'], len(d['findings']), len(d['errors'])))
for f in d['findings']: print('   FINDING', f['rule'], f['function'], '::', f['statement'][:100], '--', f['message'][:200])
for e in d['errors']: print('   ERROR', e['rule'], e['message'][:300])
"
done
rm -rf "$D" "$T"
