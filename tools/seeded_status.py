#!/usr/bin/env python3
"""Analyse every stored breaking change (seeded/<id>/patch.diff) with all 20 checks and report which rules fire.
Usage: seeded_status.py [--wave N] [--update-meta]
  --update-meta  rewrites `detected_by` / `detected_by_all` / `undecided` in each meta.json from what fires now
                 (the thorough self-test expects `detected_by[own property]` to fire)."""
import sys, os, json, glob, shutil, subprocess, tempfile, importlib
sys.path.insert(0, '/verif')
from concurrent.futures import ProcessPoolExecutor


def job(d):
    from pdsa.model import Program
    from pdsa import report
    meta = json.load(open(d + '/meta.json'))
    P = meta['property']
    t = tempfile.mkdtemp(prefix='ss-', dir='/dev/shm')
    try:
        os.makedirs(t + '/src/pydrobert')
        shutil.copytree('/repo/src/pydrobert/speech', t + '/src/pydrobert/speech')
        r = subprocess.run(['patch', '-p1', '-s', '-f'], cwd=t, stdin=open(d + '/patch.diff', 'rb'), stdout=subprocess.PIPE, stderr=subprocess.STDOUT)
        if r.returncode:
            return (d, P, None)
        prog = Program(t)
        out = {}
        for p in ['C%02d' % i for i in range(1, 21)]:
            ctx = report.Ctx(p, 'quick', prog, 0)
            try:
                importlib.import_module('pdsa.rules.%s' % p.lower()).run(ctx)
            except Exception as e:
                ctx.error('analysis', repr(e))
            ctx.postprocess()
            out[p] = (sorted({f.rule for f in ctx.findings}), [e['message'][:200] for e in ctx.errors][:2])
        return (d, P, out)
    finally:
        shutil.rmtree(t, ignore_errors=True)


if __name__ == '__main__':
    wave = int(sys.argv[sys.argv.index('--wave') + 1]) if '--wave' in sys.argv else None
    ds = []
    for d in sorted(glob.glob('/verif/seeded/C*-*')):
        m = json.load(open(d + '/meta.json'))
        w = m.get('wave') or (1 if int(os.path.basename(d).split('-')[1]) <= 2 else 2 if int(os.path.basename(d).split('-')[1]) <= 5 else 3)
        if wave is None or w == wave:
            ds.append(d)
    with ProcessPoolExecutor(12) as ex:
        res = list(ex.map(job, ds))
    det = und = miss = 0
    for d, P, out in res:
        name = os.path.basename(d)
        if out is None:
            print('%-8s patch no longer applies' % name)
            continue
        own = out[P]
        st = 'DETECTED' if own[0] else ('undecided' if own[1] else 'MISSED')
        det += st == 'DETECTED'
        und += st == 'undecided'
        miss += st == 'MISSED'
        if st != 'DETECTED' or '-v' in sys.argv:
            print('%-8s %-9s own=%s %s' % (name, st, own[0], (own[1][0][:140] if own[1] and not own[0] else '')))
        if '--update-meta' in sys.argv:
            m = json.load(open(d + '/meta.json'))
            m['detected_by_all'] = {p: v[0] for p, v in out.items() if v[0]}
            if own[0]:
                m['detected_by'] = {P: own[0][0]}
                m.pop('undecided', None)
            else:
                m['detected_by'] = {}
                m['undecided'] = {'property': P, 'reason': (own[1][0] if own[1] else 'no rule fired')}
            json.dump(m, open(d + '/meta.json', 'w'), indent=1)
    print('stored changes: %d  detected by their own check: %d  undecided (exit 2): %d  not detected: %d' % (len(res), det, und, miss))
