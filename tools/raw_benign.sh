#!/bin/sh
# tools/raw_benign.sh <benign-name> Cxx...  : raw findings (structural demotion off) of the given checks on a benign variant
N=$1; shift
PDSA_NO_STRUCTURAL=1 /verif/tools/try_patch.sh /verif/benign/$N/patch.diff "$@"
