#!/usr/bin/env python3
"""Regenerates /verif/MANIFEST.json from pdsa/manifest_table.py (kept in one place so
that the manifest stays valid while checks are added)."""
import json, os, sys
sys.path.insert(0, os.path.dirname(os.path.dirname(os.path.abspath(__file__))))
from pdsa.manifest_table import CHECKS, NOT_APPLICABLE, NOTES

checks = []
for pid, c in sorted(CHECKS.items()):
    checks.append({
        "property_id": pid,
        "quick_cmd": "./check %s --tier quick" % pid,
        "thorough_cmd": "./check %s --tier thorough" % pid,
        "evidence_file": "/verif/evidence/%s.json" % pid,
        "replay_cmd_template": "./check %s --replay {path}" % pid,
        "engine": "pdsa",
        "level_claimed": {"category": c["level"], "text": c["text"], "design_ref": c["design_ref"]},
        "level_note": c["note"],
        "technique": c["technique"],
    })
m = {
    "version": 1,
    "setup_cmd": "true",
    "hooks": {
        "guard": "PYDROBERT_SPEECH_VERIF",
        "enable": "none needed: the checks are pure source analysis of /repo's working tree; no hook or instrumentation exists in /repo",
        "baseline_off_cmd": "cd /repo && /venv/bin/python -m pytest -ra -q -p no:cacheprovider --timeout=900 --continue-on-collection-errors",
        "source_commits": [],
        "add_only": True,
    },
    "engines": [{
        "name": "pdsa",
        "path": "/verif/pdsa",
        "serves_properties": sorted(CHECKS),
        "kind_free_text": "repository-specific static analysis on python's ast: program model with C3 MRO and resolved callees, statement CFG with dominators and reaching definitions, forward substitution into exact normal forms (rational / log-linear / quasi-affine residue tables), effect/alias, dtype and None-default domains, literal-table extraction against cited specification tables",
    }],
    "checks": checks,
    "notes": NOTES,
    "not_applicable": [{"property_id": k, "reason": v} for k, v in sorted(NOT_APPLICABLE.items())],
}
path = os.path.join(os.path.dirname(os.path.dirname(os.path.abspath(__file__))), "MANIFEST.json")
with open(path, "w") as f:
    json.dump(m, f, indent=1)
print("wrote", path, len(checks), "checks", len(m["not_applicable"]), "not applicable")
