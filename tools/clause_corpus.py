#!/usr/bin/env python3
"""Clause census over the two corpora kept under /verif:

  * breaking changes  - seeded/<id>/patch.diff (confirmed by demonstration), the reverse diffs of the repaired defects
                        (pdsa/selftest/unfix) and the edit mutants of pdsa/mutants.py;
  * preserving changes - benign/<name>/patch.diff (behaviour-preserving refactorings with an equivalence harness) and the
                        PRESERVING edits of pdsa/mutants.py.

Every variant is analysed RAW (no demotion tables) and the (rule, clause) pairs that fire are recorded.
    --write   rewrites pdsa/structural.json (clauses that fired on a preserving change) and
              pdsa/armed.json (clauses that fired on a breaking change of their own property and never on a preserving one)
    -v        lists the clauses per variant
The tables are inputs of the checks (read-only at check time); this tool is run by hand when rules or corpora change."""
import sys, os, json, glob, shutil, subprocess, tempfile, importlib
sys.path.insert(0, '/verif')
os.environ['PDSA_NO_STRUCTURAL'] = '1'   # no demotion table; the distance gate (refdist.py) stays on
from concurrent.futures import ProcessPoolExecutor
PROPS = ['C%02d' % i for i in range(1, 21)]


def _tree():
    d = tempfile.mkdtemp(prefix='cc-', dir='/dev/shm')
    os.makedirs(d + '/src/pydrobert')
    shutil.copytree('/repo/src/pydrobert/speech', d + '/src/pydrobert/speech')
    return d


def _run(d, props):
    from pdsa.model import Program
    from pdsa import report
    prog = Program(d)
    fnd, err = [], []
    for p in props:
        ctx = report.Ctx(p, 'quick', prog, 0)
        mod = importlib.import_module('pdsa.rules.%s' % p.lower())
        try:
            mod.run(ctx)
        except Exception as e:
            ctx.error('analysis', repr(e))
        ctx.postprocess()
        for f in ctx.findings:
            fnd.append((p, f.rule, getattr(f, 'clause', ''), f.func, f.message[:200]))
        for e in ctx.errors:
            err.append((p, e['rule'], e['message'][:160]))
    return fnd, err


def job(spec):
    kind, name, props, how = spec
    d = _tree()
    try:
        if how[0] in ('patch', 'rpatch'):
            cmd = ['patch', '-p1', '-s', '--no-backup-if-mismatch', '-f'] + (['-R'] if how[0] == 'rpatch' else [])
            r = subprocess.run(cmd, cwd=d, stdin=open(how[1], 'rb'), stdout=subprocess.PIPE, stderr=subprocess.STDOUT)
            if r.returncode != 0:
                return (kind, name, 'patch failed', [], [])
        else:
            _, fn, old, new = how
            path = os.path.join(d, 'src/pydrobert/speech', fn)
            src = open(path).read()
            if src.count(old) != 1:
                return (kind, name, 'anchor text missing', [], [])
            open(path, 'w').write(src.replace(old, new))
        fnd, err = _run(d, props)
        return (kind, name, 'ok', fnd, err)
    finally:
        shutil.rmtree(d, ignore_errors=True)


def specs():
    from pdsa import mutants
    out = []
    for mp in sorted(glob.glob('/verif/seeded/*/meta.json')):
        meta = json.load(open(mp))
        name = os.path.basename(os.path.dirname(mp))
        out.append(('break', 'seeded ' + name, [meta['property']], ('patch', os.path.join(os.path.dirname(mp), 'patch.diff'))))
    for commit, pairs in mutants.UNFIX.items():
        out.append(('break', 'unfix ' + commit, sorted({p for p, _ in pairs}), ('rpatch', '/verif/pdsa/selftest/unfix/%s.diff' % commit)))
    for p, name, fn, old, new, _ in mutants.EDITS:
        out.append(('break', 'edit ' + name, [p], ('edit', fn, old, new)))
    for pp in sorted(glob.glob('/verif/benign/*/patch.diff')):
        out.append(('benign', 'benign ' + os.path.basename(os.path.dirname(pp)), PROPS, ('patch', pp)))
    for p, name, fn, old, new in mutants.PRESERVING:
        out.append(('benign', 'preserving ' + name, PROPS, ('edit', fn, old, new)))
    return out


if __name__ == '__main__':
    sp = specs()
    only = [a for a in sys.argv[1:] if a.startswith('C') and len(a) == 3]
    if only:
        # restrict to some properties: their breaking changes, and the preserving corpus analysed for them only
        sp = [(k, n, [p for p in props if p in only], how) for k, n, props, how in sp]
        sp = [x for x in sp if x[2]]
    with ProcessPoolExecutor(14) as ex:
        results = list(ex.map(job, sp))
    D, B = {}, {}
    for kind, name, st, fnd, err in results:
        tgt = D if kind == 'break' else B
        if st != 'ok':
            print('!!', name, st)
        for p, rule, clause, func, msg in fnd:
            tgt.setdefault((rule, clause), set()).add(name)
        if '-v' in sys.argv:
            print('%-7s %-40s findings %d errors %d' % (kind, name[:40], len(fnd), len(err)))
            for p, rule, clause, func, msg in fnd:
                print('       %s :: %s' % (rule, clause[:70]))
    armed = sorted(k for k in D if k not in B)
    both = sorted(k for k in D if k in B)
    print('breaking variants:', sum(1 for r in results if r[0] == 'break'), ' preserving variants:', sum(1 for r in results if r[0] == 'benign'))
    print('clauses fired on breaking changes:', len(D), ' on preserving changes:', len(B), ' on both:', len(both))
    undetected = [r[1] for r in results if r[0] == 'break' and r[2] == 'ok' and not any((f[1], f[2]) not in B for f in r[3])]
    print('breaking changes detected only through clauses that also fire on preserving code (or not at all): %d' % len(undetected))
    for n in undetected:
        print('   ', n)
    false_al = [r[1] for r in results if r[0] == 'benign' and r[3]]
    print('preserving variants with raw findings: %d of %d' % (len(false_al), sum(1 for r in results if r[0] == 'benign')))
    if not only:
      json.dump({'D': {'%s|%s' % k: sorted(v) for k, v in D.items()}, 'B': {'%s|%s' % k: sorted(v) for k, v in B.items()}},
              open('/dev/shm/clause_corpus.json', 'w'), indent=1)
    if '--write' in sys.argv and not only:
        json.dump(sorted(B), open('/verif/pdsa/structural.json', 'w'), indent=0)
        json.dump(armed, open('/verif/pdsa/armed.json', 'w'), indent=0)
        print('structural.json: %d clauses; armed.json: %d clauses' % (len(B), len(armed)))
